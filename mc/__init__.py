"""Model-checking machinery for adb_shell (see /verif/DESIGN.md)."""
