"""adbsim — an executable model of adbd (the device side of the ADB protocol), written from AOSP
protocol.txt / SYNC.TXT / adb.cpp / file_sync_service.cpp.  It is *not* derived from adb_shell.

Fidelity rules (each cites the adbd function it mirrors):
  * handle_packet(A_WRTE): send_ready() (the OKAY) is queued before the service sees the payload.
  * remote_socket / local_socket: one unacknowledged WRTE per stream; the next one is only produced
    after the peer's OKAY (A_OKAY -> s->ready()).
  * handle_packet(A_CLSE) on a live socket: the socket is closed and one CLSE goes back; packets for an
    unknown socket are ignored (modern adbd).
  * local_socket_close: a device-initiated close sends one CLSE; it may be queued right behind the last
    WRTE ('eager', legal per protocol.txt) or after that WRTE was acknowledged (what adbd does).
  * file_sync_service: requests are parsed from the byte stream regardless of WRTE boundaries; DATA is
    limited to 64 KiB; after a FAIL to SEND the rest of the DATA/DONE is consumed (handle_send_file),
    then the service ends and the stream closes.
Every reply is appended to a per-stream outbound queue; which non-empty queue supplies the next frame
on the wire is a 'dev-order' choice (option 0 = oldest queued packet).
"""
import collections

from . import frames
from .frames import Packet

MAXDATA = 1024 * 1024
SYNC_DATA_MAX = 64 * 1024
DEFAULT_REMOTE_IDS = (0x1001, 0x80000005, 0xFFFFFFFF, 0x1003, 0x7FFFFFFF, 0x2000)


class Out(object):
    __slots__ = ('pkt', 'avail', 'seq', 'meta')

    def __init__(self, pkt, avail, seq, meta=None):
        self.pkt, self.avail, self.seq, self.meta = pkt, avail, seq, meta


class Stream(object):
    def __init__(self, local, remote, dest, idx):
        self.local, self.remote, self.dest, self.idx = local, remote, dest, idx
        self.q = collections.deque()       # outbound packets of this stream, FIFO
        self.out = collections.deque()     # payloads still to be sent as WRTE (stop-and-wait)
        self.awaiting_ack = False
        self.finished = False              # the service will produce nothing more
        self.dev_closed = False
        self.host_closed = False
        self.eager = False
        self.wrote = []                    # ground truth: payloads written on this stream
        self.received = []                 # payloads of host WRTEs
        self.sync = None
        self.host_wrtes = 0


class NoAuth(object):
    """Device that needs no authentication."""

    def on_cnxn(self, dev, pkt):
        dev.send_cnxn()

    def on_auth(self, dev, pkt):
        dev.issue('auth', 'AUTH packet sent to a device that did not ask for authentication')


class Device(object):
    def __init__(self, env, cfg):
        self.env = env
        self.cfg = cfg
        self.parser = frames.Parser()
        self.conn_q = collections.deque()
        self.streams = collections.OrderedDict()   # remote id -> Stream (live)
        self.all_streams = []
        self.online = False
        self.seq = 0
        self.nopen = 0
        self.host_maxdata = None
        self.maxdata = (env.session_over or {}).get('maxdata', cfg.get('maxdata', MAXDATA))
        env.session_banner = (env.session_over or {}).get('banner')
        self.stale = []
        self.remote_ids = list(cfg.get('remote_ids', DEFAULT_REMOTE_IDS))
        spec = (env.session_over or {}).get('auth') or cfg.get('auth')
        if spec:
            from .auth import Auth
            self.auth = Auth(self, spec, env.ch)
            env.auths.append(self.auth)
        else:
            self.auth = NoAuth()
        self.fs = env.fs
        self.frames_out = 0
        self.stray_host = 0

    # ------------------------------------------------------------------ helpers
    def issue(self, code, msg):
        self.env.issues.append((code, msg))

    def enqueue(self, q, pkt, delay=0.0, meta=None):
        self.seq += 1
        q.append(Out(pkt, self.env.clock.now + delay, self.seq, meta))

    def send_cnxn(self, delay=0.0, maxdata=None):
        self.online = True
        self.enqueue(self.conn_q, Packet(b'CNXN', self.cfg.get('version', 0x01000000), self.maxdata if maxdata is None else maxdata,
                                         (self.env.session_banner or self.cfg.get('banner', b'device::ro.product.name=sim;\0'))), delay)
        for pkt in self.stale:          # whole packets of the previous session that the link delivers late (unflushed USB pipe, slow device)
            self.enqueue(self.conn_q, pkt, delay)
        self.stale = []

    # ------------------------------------------------------------------ host -> device
    def feed(self, data):
        for pkt in self.parser.feed(data):
            self.env.events.append(('H', pkt))
            self.handle(pkt)
        if self.parser.error:
            if not any(c == 'frame' for c, _ in self.env.issues):
                self.issue('frame', 'host byte stream is not a sequence of well-formed ADB messages: ' + self.parser.error)

    def find(self, pkt):
        s = self.streams.get(pkt.a1)
        if s is not None and s.local == pkt.a0:
            return s
        return None

    def handle(self, pkt):
        c = pkt.cmd
        if c == b'CNXN':
            self.host_maxdata = pkt.a1
            self.auth.on_cnxn(self, pkt)
        elif c == b'AUTH':
            self.auth.on_auth(self, pkt)
        elif c == b'OPEN':
            self.on_open(pkt)
        elif c == b'OKAY':
            s = self.find(pkt)
            if s is None:
                self.stray_host += 1
                return
            if s.awaiting_ack:
                s.awaiting_ack = False
                self.pump(s)
            elif self.cfg.get('flood'):
                pass                      # a device that does not wait for acknowledgements does not count them either
            else:
                self.issue('okay', 'host OKAY on stream %d although no device WRTE is outstanding' % s.local)
        elif c == b'WRTE':
            s = self.find(pkt)
            if s is None:
                self.stray_host += 1
                return
            s.host_wrtes += 1
            s.received.append(pkt.data)
            limit = self.maxdata
            if len(pkt.data) > limit:
                self.issue('maxdata', 'host WRTE payload of %d bytes exceeds the device maxdata %d' % (len(pkt.data), limit))
            order = self.cfg.get('okay_order')
            late = order == 'late' or (order == 'choice' and self.env.ch.choose('okay-order', 2, (0, 1)) == 1)
            od = self.cfg.get('okay_delay')     # a slow device: the acknowledgement of the nth host WRTE of a stream is late
            odelay = od['delay'] if od and od['nth'] == s.host_wrtes else (self.cfg.get('okay_delay_all') or 0.0)      # okay_delay_all: every acknowledgement takes that long
            if not late:
                self.enqueue(s.q, Packet(b'OKAY', s.remote, s.local), odelay)    # adbd: send_ready() before the service sees the data
            if s.sync is not None:
                s.sync.feed(pkt.data)
            if late:
                # protocol.txt does not order a side's READY against its own WRITEs: the reply may overtake the acknowledgement
                self.enqueue(s.q, Packet(b'OKAY', s.remote, s.local), odelay)
        elif c == b'CLSE':
            s = self.find(pkt)
            if s is None:
                self.stray_host += 1
                return
            s.host_closed = True
            if not s.dev_closed:
                s.dev_closed = True
                s.out.clear()
                self.enqueue(s.q, Packet(b'CLSE', s.remote, s.local), self.cfg.get('clse_reply_delay') or 0.0)     # a device that is slow to confirm a close
            del self.streams[s.remote]
        elif c == b'SYNC':
            pass

    def on_open(self, pkt):
        if not self.online:
            self.issue('open', 'OPEN before the connection is online')
            return
        if pkt.a0 == 0 or pkt.a1 != 0:
            self.issue('open', 'OPEN with local id %d, arg1 %d (must be non-zero, 0)' % (pkt.a0, pkt.a1))
            return
        if not pkt.data.endswith(b'\0'):
            self.issue('open', 'OPEN destination %r is not NUL-terminated' % (pkt.data[:40],))
        dest = pkt.data.rstrip(b'\0')
        who = getattr(self.env, 'who', None)
        if who is not None:
            self.env.open_by[pkt.a0] = who()
        for s in self.streams.values():
            if s.local == pkt.a0 and not s.host_closed:
                self.issue('dup-id', 'OPEN reuses local id %d while that stream is still open' % pkt.a0)
        remote = self.remote_ids[self.nopen % len(self.remote_ids)]
        k = 0
        while remote in self.streams or remote == pkt.a0:
            k += 1
            remote = (remote + 0x101 * k) & 0xFFFFFFFF or 0x4242
        s = Stream(pkt.a0, remote, dest, self.nopen)
        self.nopen += 1
        self.streams[remote] = s
        self.all_streams.append(s)
        if dest in (self.cfg.get('reject_open') or ()):
            del self.streams[remote]
            for d in (self.cfg.get('reject_delays') or (0.0,)):       # the refusal may be late and may be repeated (a duplicate CLSE is legal)
                self.enqueue(s.q, Packet(b'CLSE', 0, s.local), d)
            s.dev_closed = True
            return
        self.enqueue(s.q, Packet(b'OKAY', remote, s.local), (self.cfg.get('open_delay') or {}).get(dest, 0.0))
        clse = self.cfg.get('clse', 'after-ack')
        if clse == 'choice':
            s.eager = bool(self.env.ch.choose('clse-timing', 2, (0, 0)))
        else:
            s.eager = clse == 'eager'
        self.start_service(s)

    def start_service(self, s):
        dest = s.dest
        if dest == b'sync:':
            s.sync = SyncSession(self, s)
            return
        svc, _, arg = dest.partition(b':')
        outs = self.cfg.get('shell') or {}
        if dest in outs:
            chunks = outs[dest]
        elif arg in outs:
            chunks = outs[arg]
        elif svc in (b'root', b'reboot'):
            chunks = []
        else:
            chunks = self.cfg.get('shell_default', [b'out:' + arg])
        hold = self.cfg.get('hold')                 # services that never finish (keep the stream live)
        s.out.extend(bytes(c) for c in chunks if c)
        s.finished = not (hold and dest in hold)
        if dest in (self.cfg.get('endless') or ()):
            s.endless = True
            s.finished = False
        self.pump(s)

    def pump(self, s):
        if s.dev_closed:
            return
        die = self.cfg.get('die')
        if die and s.idx == die['stream'] and len(s.wrote) >= die['after'] and s.out:
            s.out.clear()                 # the service dies: the stream is closed instead of the next WRTE
            s.finished = True
        if getattr(s, 'endless', False) and not s.out:
            s.out.append(b'' if self.cfg.get('endless_empty') else b'more-%d;' % len(s.wrote))       # a command that never finishes (logcat-like); endless_empty: zero-length keep-alive writes
        while self.cfg.get('flood') and len(s.out) > 1:
            # a device without stop-and-wait (not adbd; canned test devices and some old firmware behave like this): everything at once
            payload = s.out.popleft()
            s.wrote.append(payload)
            self.enqueue(s.q, Packet(b'WRTE', s.remote, s.local, payload))
        if s.out and not s.awaiting_ack:
            payload = s.out.popleft()
            s.wrote.append(payload)
            s.awaiting_ack = True
            # wrte_delay: a slow (but legal) device -- every WRTE reaches the wire that many seconds after the device produced it
            self.enqueue(s.q, Packet(b'WRTE', s.remote, s.local, payload), self.cfg.get('wrte_delay') or 0.0)
        if s.finished and not s.out and (s.eager or not s.awaiting_ack):
            s.dev_closed = True
            z = self.cfg.get('zero_clse')       # legacy devices close with zeroed ids
            self.enqueue(s.q, Packet(b'CLSE', 0 if z in ('a0', 'both') else s.remote, 0 if z in ('a1', 'both') else s.local), self.cfg.get('clse_delay') or 0.0)
            # adbd forgets the socket at once; the peer's answering CLSE then finds nothing.  The model keeps
            # the entry so that the monitor can tell the answer from a stray packet.

    # ------------------------------------------------------------------ device -> host
    def ready_queues(self, now):
        qs = []
        if self.conn_q and self.conn_q[0].avail <= now:
            qs.append(self.conn_q)
        for s in self.all_streams:
            if s.q and s.q[0].avail <= now:
                qs.append(s.q)
        qs.sort(key=lambda q: q[0].seq)
        return qs

    def next_avail(self):
        t = [q[0].avail for q in [self.conn_q] + [s.q for s in self.all_streams] if q]
        return min(t) if t else None

    def next_frame(self, now):
        """Pick the queue that supplies the next frame ('dev-order' choice) and return its bytes, or None."""
        qs = self.ready_queues(now)
        if not qs:
            return None
        i = self.env.ch.choose('dev-order', len(qs), self.env.order_costs(len(qs))) if len(qs) > 1 else 0
        o = qs[i].popleft()
        self.frames_out += 1
        self.env.events.append(('D', o.pkt))
        return frames.encode(o.pkt.cmd, o.pkt.a0, o.pkt.a1, o.pkt.data) + o.pkt.data

    def idle(self):
        return not self.conn_q and not any(s.q for s in self.all_streams)


# ------------------------------------------------------------------------------------ filesystem + sync service
class FS(object):
    """files: path -> dict(mode, mtime, data); dirs: path -> list of (name, mode, size, mtime)."""

    def __init__(self, spec):
        self.files = {k: dict(v) for k, v in (spec.get('files') or {}).items()}
        self.dirs = {k: list(v) for k, v in (spec.get('dirs') or {}).items()}
        self.stats = dict(spec.get('stats') or {})
        self.sends = []          # completed SENDs: (path, mode, mtime, data) -- ground truth for push
        self.partial = []        # SENDs that did not reach DONE


def cut_blob(blob, cut, default_size):
    """Split a reply byte string into WRTE payloads."""
    if not blob:
        return []
    if not cut:
        cut = {'size': default_size}
    if 'at' in cut:
        pos = sorted(p for p in set(cut['at']) if 0 < p < len(blob))
        out, last = [], 0
        for p in pos + [len(blob)]:
            out.append(blob[last:p])
            last = p
        big = cut.get('size', default_size)
        res = []
        for c in out:
            res.extend(c[i:i + big] for i in range(0, len(c), big))
        return res
    if 'sizes' in cut:
        out, i = [], 0
        for n in cut['sizes']:
            if i >= len(blob):
                break
            out.append(blob[i:i + n])
            i += n
        rest = cut.get('size', default_size)
        while i < len(blob):
            out.append(blob[i:i + rest])
            i += rest
        return out
    n = cut['size']
    return [blob[i:i + n] for i in range(0, len(blob), n)]


class SyncSession(object):
    def __init__(self, dev, s):
        self.dev, self.s = dev, s
        self.buf = bytearray()
        self.state = 'idle'
        self.send = None          # dict(path, mode, data bytearray, ndata)
        self.fail_pending = None  # [reason, countdown]
        self.nreq = 0
        self.ended = False

    # replies --------------------------------------------------------------
    def reply(self, blob, cut_key='cut'):
        cfg = self.dev.cfg
        cut = cfg.get(cut_key) or cfg.get('cut')
        size = min(self.dev.host_maxdata or MAXDATA, MAXDATA)
        pieces = cut_blob(bytes(blob), cut, size)
        ea = cfg.get('empty_wrte_at')           # a zero-length WRTE in front of piece k of the reply (legal: the protocol bounds payloads only from above)
        if ea is not None:
            pieces = list(pieces)
            pieces.insert(min(ea, len(pieces)), b'')
        self.s.out.extend(pieces)
        self.dev.pump(self.s)

    def end(self):
        self.ended = True
        self.s.finished = True
        self.dev.pump(self.s)

    # requests -------------------------------------------------------------
    def feed(self, data):
        self.buf += data
        armed_before = self.fail_pending is not None
        while not self.ended and self.step():
            pass
        if armed_before and self.fail_pending is not None and self.state == 'send':
            # one more host WRTE has been received (and acknowledged) since the failure occurred
            self.fail_pending[1] -= 1
            if self.fail_pending[1] <= 0:
                self.emit_fail()

    def emit_fail(self):
        reason = self.fail_pending[0]
        self.fail_pending = None
        self.reply(frames.sync_req(b'FAIL', reason), 'fail_cut')
        self.state = 'drain' if self.state == 'send' else self.state

    def step(self):
        b = self.buf
        if len(b) < 8:
            return False
        sid = frames.SU.get(int.from_bytes(b[0:4], 'little'))
        ln = int.from_bytes(b[4:8], 'little')
        cfg = self.dev.cfg
        if self.state in ('send', 'drain'):
            if sid == b'DATA':
                if ln > SYNC_DATA_MAX:
                    self.dev.issue('sync-data', 'sync DATA record of %d bytes exceeds 64 KiB' % ln)
                if len(b) < 8 + ln:
                    return False
                chunk = bytes(b[8:8 + ln])
                del b[:8 + ln]
                self.send['data'] += chunk
                self.send['ndata'] += 1
                self.send['chunks'].append(len(chunk))
                f = cfg.get('fail')
                if self.state == 'send' and f and f.get('op') == 'send' and f.get('when') == ('data', self.send['ndata']):
                    self.fail_pending = [f.get('reason', b'fail'), f.get('delay', 0)]
                    if self.fail_pending[1] == 0:
                        self.emit_fail()
                return True
            if sid == b'DONE':
                del b[:8]
                self.send['mtime'] = ln
                if self.state == 'drain':
                    self.dev.fs.partial.append(self.send)
                    self.end()
                    return False
                if self.fail_pending is not None:
                    self.state = 'drain'
                    self.emit_fail()
                    self.dev.fs.partial.append(self.send)
                    self.end()
                    return False
                f = cfg.get('fail')
                if f and f.get('op') == 'send' and f.get('when') == 'done':
                    self.reply(frames.sync_req(b'FAIL', f.get('reason', b'fail')), 'fail_cut')
                    self.dev.fs.partial.append(self.send)
                    self.end()
                    return False
                ov = cfg.get('status_override')
                if ov is not None:
                    self.reply(ov)
                    self.state = 'idle'
                    return True
                sd = self.send
                self.dev.fs.sends.append((sd['path'], sd['mode'], sd['mtime'], bytes(sd['data']), tuple(sd['chunks']), self.dev.env.clock.now))
                self.dev.fs.files[sd['path']] = {'mode': sd['mode'], 'mtime': sd['mtime'], 'data': bytes(sd['data'])}
                self.state = 'idle'
                if not cfg.get('withhold_status'):
                    self.reply(frames.u32(frames.S[b'OKAY']) + frames.u32(0))
                return True
            self.dev.issue('sync', 'unexpected sync id %r inside SEND' % (bytes(b[0:4]),))
            self.reply(frames.sync_req(b'FAIL', b'invalid data message'))
            self.end()
            return False
        # idle: a request with a length-prefixed path
        if sid not in (b'LIST', b'STAT', b'RECV', b'SEND', b'QUIT'):
            self.dev.issue('sync', 'unknown sync request %r' % (bytes(b[0:4]),))
            self.reply(frames.sync_req(b'FAIL', b'unknown command'))
            self.end()
            return False
        if ln > 1024:
            self.dev.issue('sync', 'sync path of %d bytes exceeds 1024' % ln)
        if len(b) < 8 + ln:
            return False
        arg = bytes(b[8:8 + ln])
        del b[:8 + ln]
        self.nreq += 1
        self.dev.env.sync_requests.append((self.s.local, sid, arg))
        ov = (cfg.get('sync_override') or {}).get(sid)
        if sid == b'QUIT':
            self.end()
            return False
        if ov is not None:
            self.reply(ov)
            return True
        fs = self.dev.fs
        if sid == b'LIST':
            ents = fs.dirs.get(arg, [])
            ss = cfg.get('sync_stalls')        # {'op': LIST|STAT|RECV, 'after': k}: the service stops answering after k records; the stream stays alive
            if ss and ss['op'] == 'LIST':
                blob = b''.join(frames.sync_dent(m, sz, mt, nm) for (nm, m, sz, mt) in ents[:ss['after']])
                if blob:
                    self.reply(blob)
                return True
            blob = b''.join(frames.sync_dent(m, sz, mt, nm) for (nm, m, sz, mt) in ents)
            blob += frames.u32(frames.S[b'DONE']) + frames.u32(0) * 4
            self.reply(blob)
        elif sid == b'STAT':
            if arg in fs.stats:
                m, sz, mt = fs.stats[arg]
            elif arg in fs.files:
                f = fs.files[arg]
                m, sz, mt = f.get('mode', 0o100644), len(f['data']), f.get('mtime', 0)
            else:
                m, sz, mt = 0, 0, 0
            ss = cfg.get('sync_stalls')
            if ss and ss['op'] == 'STAT':
                if ss['after']:
                    self.reply(frames.sync_stat(m, sz, mt)[:8])        # half a record, then nothing
                return True
            self.reply(frames.sync_stat(m, sz, mt))
        elif sid == b'RECV':
            f = cfg.get('fail')
            if f and f.get('op') == 'recv' and f.get('when') == 'start' or arg not in fs.files:
                reason = (f or {}).get('reason', b'No such file or directory') if (f and f.get('op') == 'recv') else b'No such file or directory'
                self.reply(frames.sync_req(b'FAIL', reason), 'fail_cut' if cfg.get('fail_cut') else 'cut')
                return True
            data = fs.files[arg]['data']
            recs = cfg.get('records')
            sizes = []
            if isinstance(recs, (list, tuple)):
                sizes = list(recs)
            step = recs if isinstance(recs, int) and recs > 0 else SYNC_DATA_MAX
            blob = bytearray()
            i = 0
            nrec = 0
            for n in sizes:
                if i >= len(data):
                    break
                blob += frames.sync_req(b'DATA', data[i:i + n])
                i += n
                nrec += 1
            while i < len(data):
                blob += frames.sync_req(b'DATA', data[i:i + step])
                i += step
                nrec += 1
            if f and f.get('op') == 'recv' and isinstance(f.get('when'), tuple) and f['when'][0] == 'data':
                # FAIL after k DATA records
                k = f['when'][1]
                blob = bytearray()
                i = 0
                for n in (sizes + [step] * (k + 1))[:k]:
                    blob += frames.sync_req(b'DATA', data[i:i + n])
                    i += n
                blob += frames.sync_req(b'FAIL', f.get('reason', b'fail'))
            elif f and f.get('op') == 'recv' and f.get('when') == 'done':
                blob += frames.sync_req(b'FAIL', f.get('reason', b'fail'))
            else:
                blob += frames.u32(frames.S[b'DONE']) + frames.u32(0)
            ss = cfg.get('sync_stalls')
            if ss and ss['op'] == 'RECV':
                k = ss['after']
                cutoff, i = 0, 0
                for nn in (sizes + [step] * (k + 1))[:k]:
                    cutoff += 8 + min(nn, max(0, len(data) - i))
                    i += nn
                blob = blob[:cutoff]
                if blob:
                    self.reply(bytes(blob))
                return True
            self.reply(bytes(blob))
        elif sid == b'SEND':
            path, _, mode = arg.rpartition(b',')
            try:
                mode_i = int(mode)
            except ValueError:
                mode_i = None
                self.dev.issue('sync', 'SEND argument %r is not <path>,<decimal mode>' % (arg[:60],))
            self.send = {'path': path, 'mode': mode_i, 'data': bytearray(), 'ndata': 0, 'mtime': None, 'chunks': [], 'arg': arg}
            self.state = 'send'
            ro = cfg.get('ro_prefix')          # a read-only part of the device filesystem: SEND there is rejected at once
            if ro and path.startswith(ro):
                self.fail_pending = [b'Permission denied', 0]
                self.emit_fail()
                return True
            f = cfg.get('fail')
            if f and f.get('op') == 'send' and f.get('when') == 'header':
                self.fail_pending = [f.get('reason', b'fail'), f.get('delay', 0)]
                if self.fail_pending[1] == 0:
                    self.emit_fail()
        return True
