"""Device-side CNXN/AUTH machine of adbsim (adbd: handle_packet A_CNXN/A_AUTH, adbd_auth_*).

Decisions are data (`spec`) or choice points: after the host's CNXN the device answers CNXN (no auth needed),
AUTH(TOKEN, fresh 20-byte token), AUTH(arg0 != TOKEN) or nothing; after each signature it accepts (CNXN),
re-challenges with a fresh token, sends a non-token AUTH, or stays silent; after the public key it accepts
at once, after a delay, or never.  Every signature is recorded together with the token that was current.
"""
from .common import rng
from .frames import Packet

TOKEN, SIGNATURE, RSAPUBLICKEY = 1, 2, 3


class Auth(object):
    def __init__(self, dev, spec, ch=None):
        self.dev = dev
        self.spec = spec
        self.ch = ch
        self.ntok = 0
        self.token = None
        self.sigs = []        # (signature bytes, token current when it arrived)
        self.pubkeys = []     # payloads of AUTH(RSAPUBLICKEY)
        self.log = []         # decisions taken
        self.accepted_by = None
        self.stray_i = 0

    def decide(self, key, options, idx=None):
        v = self.spec.get(key)
        if isinstance(v, (list, tuple)) and idx is not None:
            v = v[idx] if idx < len(v) else v[-1]
        if v is None or v == 'choose':
            v = options[self.ch.choose('auth-' + key, len(options), 0)]
        self.log.append((key, v))
        return v

    def fresh_token(self):
        self.ntok += 1
        self.token = rng('token', self.dev.env.sessions, self.ntok).randbytes(20)
        return self.token

    STRAYS = ((b'OKAY', 0x999, 0x77, b''), (b'WRTE', 0x999, 0x77, b'stale data'), (b'CLSE', 0x999, 0x77, b''))

    def strays(self):
        """Stray packets of dead streams that precede the awaited reply (a budgeted choice)."""
        if not self.spec.get('strays'):
            return
        n = self.ch.choose('stray', 3, (0, 1, 2))
        for _ in range(n):
            st = self.STRAYS[self.stray_i % 3]
            self.dev.enqueue(self.dev.conn_q, Packet(st[0], st[1], st[2], st[3]))
            self.stray_i += 1

    def answer(self, what, delay=0.0):
        dev = self.dev
        self.strays()
        if what == 'cnxn':
            dev.send_cnxn(delay, self.spec.get('maxdata'))
        elif what == 'token':
            dev.enqueue(dev.conn_q, Packet(b'AUTH', TOKEN, 0, self.fresh_token()), delay)
        elif what == 'nontoken':
            dev.enqueue(dev.conn_q, Packet(b'AUTH', self.spec.get('nontoken_arg0', SIGNATURE), 0, self.fresh_token()), delay)
        elif what == 'silent':
            pass
        else:
            raise ValueError(what)

    def on_cnxn(self, dev, pkt):
        self.answer(self.decide('first', ('cnxn', 'token', 'nontoken', 'silent')))

    def on_auth(self, dev, pkt):
        if pkt.a0 == SIGNATURE:
            self.sigs.append((pkt.data, self.token))
            i = len(self.sigs) - 1
            what = self.decide('sig', ('token', 'cnxn', 'nontoken', 'silent'), i)
            if what == 'cnxn':
                self.accepted_by = ('sig', i)
            self.answer(what)
        elif pkt.a0 == RSAPUBLICKEY:
            self.pubkeys.append(pkt.data)
            what = self.decide('pub', ('cnxn', 'late', 'never', 'token'))
            if what == 'token':
                self.answer('token')          # a device that keeps challenging instead of accepting the key
            if what == 'cnxn':
                self.accepted_by = ('pub', len(self.pubkeys) - 1)
                self.answer('cnxn', self.spec.get('pub_delay', 0.0))
            elif what == 'late':
                self.accepted_by = ('pub-late', len(self.pubkeys) - 1)
                self.answer('cnxn', self.spec.get('late_delay', 1e6))
        else:
            dev.issue('auth', 'host AUTH with arg0=%d' % pkt.a0)
