"""C01 -- shell / exec_out / streaming_shell output is exactly what the device wrote, for every chunking."""
from .. import monitor
from ..harness import Session
from ..runner import Part

PROPERTY = 'C01'
LEVEL = 'exploration'
ATOMS = [b'a', b'\n', b'\x00', b'\xc3\xa9', b'\xe3\x81\x82', b'\xf0\x9f\x98\x80', b'\xff', b'\xc3', b'\x80']
RULE = ('device output = concatenation of <=k atoms from a UTF-8-hostile alphabet (ASCII, NL, NUL, 2/3/4-byte sequences, 0xff, lone lead, '
        'lone continuation) plus the empty output; ALL 2^(n-1) partitions of the n-byte output into WRTE payloads (choice point) x '
        '{shell, exec_out, streaming_shell, root} x decode x {sync, async} x CLSE {after ack, eager}; large payloads at maxdata boundaries; '
        'read-fragment deviations; a slow chatty device (every packet within the read timeout, the command longer than it, within timeout_s); two device objects in one process (equal ids, suspended streams, parked packets); a second live stream with distinct bytes in flight under every device wire order; an OPEN answered only after the caller timed out, followed by further commands; a device without stop-and-wait that writes up to 1000 packets of a suspended stream while another command runs; oracle = device-side '
        'per-stream payload record and Python bytes.decode(utf8, backslashreplace); non-trivial = output non-empty; distinct = distinct '
        '(output, partition, api, decode, twin, close timing, deviations)')
ASSUMPTIONS = ['adbsim is a faithful adbd model (one unacknowledged WRTE per stream, CLSE after the last ack or eagerly)',
               'outputs outside the atom alphabet / beyond the stated length are not explored']


def partition(data, idx):
    """The idx-th of the 2^(n-1) compositions: bit i set = cut after byte i."""
    out, last = [], 0
    for i in range(len(data) - 1):
        if idx >> i & 1:
            out.append(data[last:i + 1])
            last = i + 1
    if data:
        out.append(data[last:])
    return out


def expected(api, decode, wrote):
    whole = b''.join(wrote)
    if api == 'root':
        return None
    if api == 'streaming_shell':
        return [w.decode('utf8', 'backslashreplace') for w in wrote] if decode else list(wrote)
    return whole.decode('utf8', 'backslashreplace') if decode else whole


def call(s, api, cmd, decode):
    if api == 'root':
        return s.op(('root',))
    return s.op((api, cmd, {'decode': decode}))


def run_one(params, ch):
    data, api, decode, twin, clse, frag = params['data'], params['api'], params['decode'], params['twin'], params['clse'], params.get('frag', False)
    n = len(data)
    if 'chunks' in params:
        chunks = params['chunks']
    else:
        idx = ch.choose('partition', 1 << (n - 1), 0) if n > 1 else 0
        chunks = partition(data, idx)
    dest = {'shell': b'shell:c', 'exec_out': b'exec:c', 'streaming_shell': b'shell:c', 'root': b'root:'}[api]
    cfg = {'shell': {dest: chunks}, 'clse': clse, 'maxdata': params.get('maxdata', 1024 * 1024)}
    if params.get('policy'):
        cfg['frag_policy'] = params['policy']
    slow = params.get('slow')          # (seconds per WRTE/CLSE, read_timeout_s, timeout_s): every packet in time, the whole command within timeout_s
    if slow:
        cfg['wrte_delay'] = cfg['clse_delay'] = slow[0]
    s = Session(ch, cfg, twin=twin, frag=frag)
    try:
        s.op(('connect',))
        if slow:
            kw = {'decode': decode, 'read_timeout_s': slow[1]}
            if api != 'streaming_shell':
                kw['timeout_s'] = slow[2]
            r = s.op(('root', kw) if api == 'root' else (api, 'c', kw))
        else:
            r = call(s, api, 'c', decode)
        env = s.env
        st = [x for x in env.dev.all_streams]
        wrote = st[0].wrote if st else []
        viol = [{'msg': '%s: %s' % i} for i in env.issues]
        mon, _ = monitor.check(env.events, completed=(r[0] == 'ok'))
        viol += [{'msg': 'stream monitor %s: %s' % m} for m in mon]
        if b''.join(wrote) != data:
            viol.append({'msg': 'harness: device did not write the whole output (%r of %r): the host stopped acknowledging' % (b''.join(wrote), data)})
        exp = expected(api, decode, wrote)
        if r[0] != 'ok':
            viol.append({'msg': '%s(decode=%s) of output %r in chunks %r ended with %r' % (api, decode, data, [bytes(c) for c in chunks], r)})
        elif r[1] != exp:
            viol.append({'msg': '%s(decode=%s) returned %r, device wrote %r' % (api, decode, r[1], [bytes(c) for c in chunks])})
        big = len(data) > 64
        return {'outcome': (r[0], r[1] if not big else (len(r[1]) if r[0] == 'ok' and r[1] is not None else None)), 'viol': viol,
                'nontrivial': (len(data), data[:16], tuple(len(c) for c in chunks), api, decode, twin, clse, tuple(ch.choices)) if data else None,
                'sample': {'output': data[:32], 'chunks': [len(c) for c in chunks], 'api': api, 'decode': decode, 'twin': twin, 'clse': clse,
                           'result': r[1] if not big else '(%d bytes)' % len(data)},
                'trans': len(env.events)}
    finally:
        s.finish()


def run_iso(params, ch):
    """A suspended streaming_shell with distinct bytes in flight while the stream under test runs; every wire order."""
    twin, api, decode = params['twin'], params['api'], params['decode']
    other = [b'OTHER-1', b'\xe3\x81', b'\x82OTHER-3'][:params.get('nother', 3)]
    mine = [b'mi', b'\xc3', b'\xa9ne']
    cfg = {'shell': {b'shell:other': other, {'shell': b'shell:c', 'exec_out': b'exec:c', 'streaming_shell': b'shell:c'}[api]: mine}, 'clse': params['clse']}
    if params.get('family'):
        from .. import scen
        cfg['remote_ids'] = scen.REMOTE_FAMILIES[params['family']]
    s = Session(ch, cfg, twin=twin)
    try:
        s.op(('connect',))
        if twin == 'sync':
            def body(d):
                g = d.streaming_shell('other', decode=False)
                first = next(g)
                mid = getattr(d, api)('c', decode=decode)
                if api == 'streaming_shell':
                    mid = list(mid)
                if params.get('rounds') == 2:
                    # the suspended stream advances by one item (emptying what was parked for it), then another command runs
                    second = next(g)
                    mid2 = getattr(d, api)('c', decode=decode)
                    if api == 'streaming_shell':
                        mid2 = list(mid2)
                    if mid2 != mid:
                        return first, ('second run differs', mid, mid2), [second] + list(g)
                    return first, mid, [second] + list(g)
                return first, mid, list(g)
        else:
            async def body(d):
                g = d.streaming_shell('other', decode=False)
                first = await g.__anext__()
                if api == 'streaming_shell':
                    mid = [x async for x in d.streaming_shell('c', decode=decode)]
                else:
                    mid = await getattr(d, api)('c', decode=decode)
                if params.get('rounds') == 2:
                    second = await g.__anext__()
                    if api == 'streaming_shell':
                        mid2 = [x async for x in d.streaming_shell('c', decode=decode)]
                    else:
                        mid2 = await getattr(d, api)('c', decode=decode)
                    if mid2 != mid:
                        return first, ('second run differs', mid, mid2), [second] + [x async for x in g]
                    return first, mid, [second] + [x async for x in g]
                return first, mid, [x async for x in g]
        r = s.run(body)
        env = s.env
        viol = [{'msg': '%s: %s' % i} for i in env.issues]
        mon, _ = monitor.check(env.events, completed=(r[0] == 'ok'))
        viol += [{'msg': 'stream monitor %s: %s' % m} for m in mon]
        if r[0] != 'ok':
            viol.append({'msg': 'isolation scenario ended with %r' % (r,)})
        else:
            first, mid, rest = r[1]
            if [first] + rest != other:
                viol.append({'msg': 'suspended stream yielded %r, device wrote %r' % ([first] + rest, other)})
            if mid != expected(api, decode, mine):
                viol.append({'msg': '%s returned %r, device wrote %r on that stream' % (api, mid, mine)})
        order = tuple((p.cmd, p.a1) for w, p in env.events if w == 'D')
        return {'outcome': (r, order), 'viol': viol, 'nontrivial': (twin, api, decode, params['clse'], tuple(ch.choices)),
                'sample': {'twin': twin, 'api': api, 'wire_order': [(c.decode(), i) for c, i in order]}, 'trans': len(env.events)}
    finally:
        s.finish()


def run_two_devices(params, ch):
    """Two device objects of the same flavour in one process, each with a suspended streaming_shell, the device ids of both connections
    equal (as on every fresh connection).  Device X runs another command, which parks the suspended stream's next payload; then both
    suspended streams are drained.  Every stream yields exactly what ITS device wrote."""
    twin = params['twin']
    fam = {'remote_ids': (1, 2, 3, 4)} if params['ids'] == 'like-host' else {}
    cx = dict({'shell': {b'shell:sus': [b'X-1', b'X-2', b'X-3'], b'shell:c': [b'xc']}, 'clse': params['clse']}, **fam)
    cy = dict({'shell': {b'shell:sus': [b'Y-1', b'Y-2'], b'shell:c': [b'yc']}, 'clse': params['clse']}, **fam)
    sx = Session(ch, cx, twin=twin)
    sy = Session(ch, cy, twin=twin, **({'share_loop': sx.loop} if twin == 'async' else {}))
    try:
        res = [sx.op(('connect',)), sy.op(('connect',)), sx.op(('gen-start', 'sus', {'decode': False})), sy.op(('gen-start', 'sus', {'decode': False})),
               sx.op(('shell', 'c', {'decode': False})), sy.op(('gen-rest', 0)), sx.op(('gen-rest', 0)), sy.op(('shell', 'c', {'decode': False}))]
        want = [('ok', True), ('ok', True), ('ok', b'X-1'), ('ok', b'Y-1'), ('ok', b'xc'), ('ok', [b'Y-2']), ('ok', [b'X-2', b'X-3']), ('ok', b'yc')]
        viol = []
        for i, (r, w) in enumerate(zip(res, want)):
            if r != w:
                viol.append({'msg': 'two devices in one process: step %d gave %r, its device wrote %r' % (i, r, w[1])})
                break
        for nm, s_ in (('X', sx), ('Y', sy)):
            viol += [{'msg': 'device %s: %s: %s' % ((nm,) + i)} for i in s_.env.issues]
        return {'outcome': tuple(r[0] for r in res), 'viol': viol, 'nontrivial': (tuple(sorted((k, str(v)) for k, v in params.items())), tuple(ch.choices)), 'sample': dict(params, results=[r[0] for r in res]),
                'trans': len(sx.env.events) + len(sy.env.events)}
    finally:
        sy.finish()
        sx.finish()


def run_backlog(params, ch):
    """A device that does not wait for acknowledgements writes m packets of a suspended stream while another command runs: they
    all have to be parked and delivered later, in order."""
    twin, m = params['twin'], params['m']
    other = [b'A%05d\n' % i for i in range(m + 1)]
    mine = [b'mi', b'ne']
    cfg = {'shell': {b'shell:other': other, b'shell:c': mine}, 'flood': True}
    s = Session(ch, cfg, twin=twin, order_budgeted=True)      # wire order: oldest packet first (a budgeted choice with budget 0 here)
    try:
        s.op(('connect',))
        if twin == 'sync':
            def body(d):
                g = d.streaming_shell('other', decode=False)
                first = next(g)
                mid = d.shell('c', decode=False)
                return first, mid, list(g)
        else:
            async def body(d):
                g = d.streaming_shell('other', decode=False)
                first = await g.__anext__()
                mid = await d.shell('c', decode=False)
                return first, mid, [x async for x in g]
        r = s.run(body)
        viol = [{'msg': '%s: %s' % i} for i in s.env.issues if i[0] != 'okay']
        if r[0] != 'ok':
            viol.append({'msg': 'backlog scenario ended with %r' % (r,)})
        else:
            first, mid, rest = r[1]
            if [first] + rest != other:
                got = [first] + rest
                n = next((i for i, (a, b) in enumerate(zip(got, other)) if a != b), min(len(got), len(other)))
                viol.append({'msg': 'suspended stream yielded %d payloads, device wrote %d; first difference at index %d (%r)' % (len(got), len(other), n, got[n:n + 1])})
            if mid != b''.join(mine):
                viol.append({'msg': 'shell returned %r, device wrote %r on that stream' % (mid, mine)})
        return {'outcome': (r[0], m), 'viol': viol, 'nontrivial': (twin, m), 'sample': dict(params, result=r[0]), 'trans': len(s.env.events)}
    finally:
        s.finish()


def run_late(params, ch):
    """The device answers an OPEN only after the caller gave up; the next command on the same connection must still get
    exactly its own output (the late OKAY / WRTE / CLSE of the abandoned stream must not leak into it)."""
    twin, api, decode = params['twin'], params['api'], params['decode']
    mine = [b'mi', b'\xc3', b'\xa9ne']
    late = [b'LATE-1', b'LATE-2']
    dest = {'shell': b'shell:c', 'exec_out': b'exec:c', 'streaming_shell': b'shell:c'}[api]
    cfg = {'shell': {b'shell:slow': late[:params['nlate']], dest: mine}, 'clse': params['clse'], 'open_delay': {b'shell:slow': params['delay']}}
    s = Session(ch, cfg, twin=twin)
    try:
        s.op(('connect',))
        r1 = s.op(('shell', 'slow', {'decode': False, 'transport_timeout_s': 0.5, 'read_timeout_s': 1.0}))
        r2 = call(s, api, 'c', decode)
        r3 = call(s, api, 'c', decode)
        viol = [{'msg': '%s: %s' % i} for i in s.env.issues if i[0] != 'okay']
        if r1[0] != 'exc':
            viol.append({'msg': 'harness: the slow open was expected to time out, got %r' % (r1,)})
        for r in (r2, r3):
            if r != ('ok', expected(api, decode, mine)):
                viol.append({'msg': '%s after an abandoned open returned %r, the device wrote %r on that stream (late packets of the abandoned stream: %r)' % (api, r, mine, late[:params['nlate']])})
        return {'outcome': (r1[:2], r2, r3), 'viol': viol, 'nontrivial': (twin, api, decode, params['clse'], params['delay'], params['nlate'], tuple(ch.choices)),
                'sample': dict(params, first=r1[:2], second=r2), 'trans': len(s.env.events)}
    finally:
        s.finish()


def strings(k):
    out = [b'']
    level = [b'']
    for _ in range(k):
        level = [p + a for p in level for a in ATOMS]
        out += level
    return list(dict.fromkeys(out))


def parts(tier):
    k = 2 if tier == 'quick' else 3
    twins = ('sync', 'async')
    apis = ('shell', 'exec_out', 'streaming_shell')
    sc = [{'data': d, 'api': a, 'decode': dec, 'twin': t, 'clse': c} for d in strings(k) for a in apis for dec in (True, False)
          for t in twins for c in ('after-ack', 'eager') if len(d) <= (8 if tier == 'quick' else 10)]
    sc += [{'data': d, 'api': 'root', 'decode': False, 'twin': t, 'clse': c} for d in strings(1) for t in twins for c in ('after-ack', 'eager')]
    out = [Part('partitions', sc, run_one, {'partition': None}, what='<=%d atoms, all WRTE partitions' % k,
                bound='outputs of <=%d atoms (<=%d bytes), all 2^(n-1) partitions' % (k, 8 if tier == 'quick' else 10))]
    fr = [{'data': d, 'api': a, 'decode': True, 'twin': t, 'clse': 'after-ack', 'frag': True} for d in strings(1 if tier == 'quick' else 2)[:40]
          for a in apis for t in twins]
    out.append(Part('partitions+frag', fr, run_one, {'partition': None, 'frag': 1 if tier == 'quick' else 2},
                    what='all partitions combined with read-fragment deviations', bound='frag deviations <= %d' % (1 if tier == 'quick' else 2)))
    big = []
    for md in (4096, 1024 * 1024):
        for sz in (1, md - 1, md):
            pay = (b'\xe3\x81\x82' * (sz // 3 + 1))[:sz]
            for a in apis:
                for t in twins:
                    big.append({'data': pay + b'\x81\x82z', 'chunks': [pay, b'\x81\x82z'], 'api': a, 'decode': True, 'twin': t, 'clse': 'after-ack', 'maxdata': md})
    out.append(Part('maxdata-payloads', big, run_one, what='payload sizes 1, maxdata-1, maxdata for maxdata 4096 and 1 MiB', bound='%d cases' % len(big)))
    pol = [{'data': d, 'api': a, 'decode': dec, 'twin': t, 'clse': 'after-ack', 'policy': p} for d in strings(2)[10:40] for a in apis for dec in (True, False) for t in twins
           for p in ('one', 'two', 'half', 'n-1', 'alt-empty-one') if len(d) >= 3]
    out.append(Part('partitions-under-read-fragmentation', pol, run_one, {'partition': None}, what='all WRTE partitions under global bulk_read fragmentation policies (every payload reassembled from several reads)',
                    bound='%d scenarios x all partitions' % len(pol)))
    iso = [{'twin': t, 'api': a, 'decode': d, 'clse': c, 'nother': n, 'family': f} for t in twins for a in apis for d in (True, False) for c in ('after-ack', 'eager') for n in (3, 1) for f in (None, 'mirror')]
    iso += [{'twin': t, 'api': a, 'decode': False, 'clse': c, 'nother': n, 'family': None, 'rounds': 2} for t in twins for a in ('shell', 'streaming_shell') for c in ('after-ack', 'eager') for n in (2, 3)]
    slow = [{'data': b'0123456789abcdef'[:n], 'chunks': [b'0123456789abcdef'[i:i + 1] for i in range(n)], 'api': a, 'decode': False, 'twin': t, 'clse': c, 'slow': sl}
            for n in (2, 6, 16) for a in ('shell', 'exec_out', 'streaming_shell') for t in ('sync', 'async') for c in ('after-ack', 'eager')
            for sl in ((0.3, 1.0, None), (0.3, 1.0, 30.0), (0.3, 1.0, 6.0), (0.9, 1.0, 60.0), (0.05, 0.1, 5.0))]
    out.append(Part('slow-chatty-device', slow, run_one, what='a slow device: 2/6/16 one-byte WRTEs, each within the read timeout, the whole command longer than the read timeout but within timeout_s',
                    bound='%d cases' % len(slow)))
    two = [{'twin': t, 'clse': c, 'ids': i} for t in ('sync', 'async') for c in ('after-ack', 'eager') for i in ('like-host', 'default')]
    out.append(Part('two-devices', two, run_two_devices, {'dev-order': None}, what='two device objects in one process with equal stream ids, each with a suspended stream; one runs a command that parks packets; all wire orders',
                    bound='%d cases x all wire orders' % len(two), min_outcomes=1))
    out.append(Part('isolation', iso, run_iso, {'dev-order': None}, what='second live stream with bytes in flight, all device wire orders',
                    bound='all dev-order choices'))
    late = [{'twin': t, 'api': a, 'decode': d, 'clse': c, 'delay': dl, 'nlate': nl} for t in twins for a in apis for d in (True, False) for c in ('after-ack', 'eager')
            for dl in (0.7, 1.2, 1.7, 30.0) for nl in (0, 1, 2)]
    out.append(Part('late-answers', late, run_late, {'dev-order': None}, what='an OPEN answered only after the caller gave up, then two more commands on the same connection; all wire orders',
                    bound='%d cases x all dev-order choices' % len(late)))
    back = [{'twin': t, 'm': m} for t in twins for m in (0, 1, 2, 100, 255, 256, 257, 1000)]
    out.append(Part('backlog-without-flow-control', back, run_backlog, {'dev-order': 0}, what='a device that ignores stop-and-wait writes up to 1000 packets of a suspended stream while another command runs',
                    bound='%d cases' % len(back), min_outcomes=1))
    return out
