"""C02 -- every packet the host emits is a well-formed ADB message."""
from .. import frames, oracle, scen
from ..common import rng
from ..harness import Session
from ..runner import Part

PROPERTY = 'C02'
LEVEL = 'exploration'
B = sorted(set([0, 1, 2, 0x7F, 0x80, 0xFF, 0x100, 0xFFFF, 0x10000, 2**31 - 1, 2**31, 2**32 - 2, 2**32 - 1] + [2**k for k in range(32)]))
RULE = ('(a) AdbMessage(cmd, arg0, arg1, data).pack() for all 7 commands x arg0, arg1 in a %d-value boundary set (all powers of two and their neighbours at the 8/16/31/32-bit '
        'edges) x payload shapes {empty, every single byte value, 0xff runs around 256, 4096, 65536, 1 MiB of 0xff, seeded random; bytes and bytearray}, decoded by an '
        'independent parser (int.from_bytes, literal command words, byte sum) and by the library\'s own unpack; thorough adds a 17 MiB payload whose byte sum exceeds 2^32; '
        '(b) the complete outgoing byte stream of whole sessions (all 8 operations, auth with signatures and public key, failing pushes/pulls) with the local id counter '
        'started at 0, 2^31-2 and 2^32-3 and remote ids at the 32-bit extremes, devices announcing protocol versions 1 / 0x01000001 / 0x0100ffff, also over transports that accept only 1..4095 bytes per write, fed through the strict parser; (c) two device objects in one process used concurrently (threads with one preemption and one short write; asyncio tasks under <=2 deviations of the I/O completion order), each stream parsed separately; non-trivial = payload non-empty or session; '
        'distinct = distinct (cmd, arg0, arg1, payload shape) / session parameters' % len(B))
ASSUMPTIONS = ['frames.py (independent codec) implements AOSP protocol.txt correctly', 'the strict parser of adbsim also runs on every execution of every other check']


def payloads(tier):
    r = rng('c02')
    out = [('empty', b''), ('ff2', b'\xff' * 2), ('ff255', b'\xff' * 255), ('ff256', b'\xff' * 256), ('ff257', b'\xff' * 257), ('r4096', r.randbytes(4096)),
           ('r65536', r.randbytes(65536)), ('ff1M', b'\xff' * (1024 * 1024)), ('r1k', r.randbytes(1024))]
    if tier == 'thorough':
        out.append(('ff17M', b'\xff' * (17 * 1024 * 1024)))
    return out


def judge(cmd, a0, a1, data, viol):
    from adb_shell.adb_message import AdbMessage, unpack
    msg = AdbMessage(cmd, a0, a1, data)
    hdr = msg.pack()
    want = frames.encode(cmd, a0, a1, bytes(data))
    if bytes(hdr) != want:
        viol.append({'msg': 'pack(%s,%d,%d,%d bytes %s) = %s, protocol says %s' % (cmd.decode(), a0, a1, len(data), type(data).__name__, bytes(hdr).hex(), want.hex())})
        return
    p = frames.Parser()
    got = p.feed(bytes(hdr) + bytes(msg.data))
    if p.error or len(got) != 1 or got[0].key() != (cmd, a0, a1, bytes(data)):
        viol.append({'msg': 'independent parser: %s' % (p.error or got,)})
    u = unpack(hdr)
    if tuple(u) != (frames.WIRE[cmd], a0, a1, len(data), frames.bytesum(bytes(data))):
        viol.append({'msg': 'unpack(pack(x)) = %r' % (u,)})


def run_grid(params, ch):
    cmd, a0 = params['cmd'], params['a0']
    viol = []
    n = 0
    small = [b'', b'\x00', b'\xff', b'\xff' * 257, bytearray(b'\x80\x7f')]
    for a1 in B:
        for d in small:
            judge(cmd, a0, a1, d, viol)
            n += 1
    return {'outcome': (cmd, a0, len(viol)), 'viol': viol[:3], 'nontrivial': (cmd, a0), 'extra': {'packs': n},
            'sample': {'cmd': cmd, 'arg0': a0, 'arg1_values': len(B), 'payloads': len(small)}, 'trans': n}


def run_payload(params, ch):
    cmd = params['cmd']
    viol = []
    n = 0
    for a0, a1 in ((0, 0), (1, 2**32 - 1), (2**32 - 1, 2**31), (0x01000000, 1024 * 1024)):
        if params['kind'] == 'bytes256':
            for b in range(256):
                for d in (bytes([b]), bytearray([b])):
                    judge(cmd, a0, a1, d, viol)
                    n += 1
        else:
            for d in (params['data'], bytearray(params['data'])):
                judge(cmd, a0, a1, d, viol)
                n += 1
    return {'outcome': (cmd, params['kind'], len(viol)), 'viol': viol[:3], 'nontrivial': (cmd, params['kind']), 'extra': {'packs': n},
            'sample': {'cmd': cmd, 'payload': params['kind']}, 'trans': n}


def run_session(params, ch):
    cfg = scen.ops_cfg(params['chunking'], params['maxdata'], 'after-ack', 'extreme')
    if params.get('cap'):
        cfg['wcap_global'] = params['cap']
    if params.get('version'):
        cfg['version'] = params['version']
    if params.get('fail'):
        cfg['fail'] = params['fail']
    s = Session(ch, cfg, twin=params['twin'])
    try:
        s.dev._local_id = params['start']
        res = [s.op(('connect', dict(params['connect'])))]
        for name in params['ops']:
            res.append(s.op(scen.op_tuple(name, params.get('push_size', 40))))
        viol = oracle.base_viol(s, completed=False)
        hp = [p for w, p in s.env.events if w == 'H']
        if not hp:
            viol.append({'msg': 'session produced no host packet'})
        ids = sorted({p.a0 for p in hp if p.cmd == b'OPEN'})
        return {'outcome': (tuple(r[0] for r in res), len(hp), tuple(ids)), 'viol': viol, 'nontrivial': tuple(sorted((k, str(v)) for k, v in params.items())),
                'extra': {'session_packets': len(hp)}, 'sample': {'params': {k: v for k, v in params.items() if k != 'fail'}, 'host_packets': len(hp), 'open_ids': ids[:4]},
                'trans': len(hp)}
    finally:
        s.finish()


def run_boundary(params, ch):
    """Messages whose payload length sits on a size boundary (4096 = legacy maxdata, 64 KiB, 256 KiB, 1 MiB): an OPEN carrying a long
    command, and pushes whose WRTEs come out at those sizes.  The strict parser of the device model judges every message."""
    cfg = scen.ops_cfg('one', params['maxdata'], 'after-ack', 'small')
    s = Session(ch, cfg, twin=params['twin'])
    try:
        res = [s.op(('connect',))]
        if params['kind'] == 'open':
            cmd = 'x' * (params['payload'] - len('shell:') - 1)
            res.append(s.op(('shell', cmd, {'decode': False})))
            want = ('ok', b'out:' + cmd.encode())
        else:
            res.append(s.op(('push', ('bytes', scen.push_data(params['size'])), '/p' + 'q' * params['plen'], {'mtime': 7})))
            want = ('ok', None)
        res.append(s.op(scen.op_tuple('stat')))
        viol = oracle.base_viol(s, completed=all(r[0] == 'ok' for r in res))
        if res[1] != want:
            viol.append({'msg': 'operation with a boundary-sized message gave %r' % (res[1] if len(repr(res[1])) < 200 else repr(res[1])[:200],)})
        if res[2] != scen.op_expected('stat', cfg):
            viol.append({'msg': 'stat after the boundary-sized message gave %r' % (res[2],)})
        sizes = sorted({len(p.data) for w, p in s.env.events if w == 'H'})
        return {'outcome': (tuple(r[0] for r in res), tuple(sizes[-3:])), 'viol': viol, 'nontrivial': tuple(sorted((k, str(v)) for k, v in params.items())),
                'sample': dict(params, payload_sizes=sizes[-4:]), 'trans': len(s.env.events)}
    finally:
        s.finish()


def run_slow_then_reconnect(params, ch):
    """A transport that accepts few bytes per call and is slow: the read timeout expires in the middle of a message (the call raises).  Then
    connect() again -- with or without close() -- and run a command: the byte stream of the new connection is well-formed from its first byte."""
    cfg = scen.ops_cfg('one', 4096)
    cfg['wcap_global'] = params['cap']
    s = Session(ch, cfg, twin=params['twin'], eps=params['eps'])
    try:
        s.op(('connect',))
        r1 = s.op(('shell', 'c' * params['cmdlen'], {'decode': False, 'read_timeout_s': params['rt']}))
        if params['close']:
            s.op(('close',))
        s.env.wcap_global = None
        s.env.eps = 0.0
        n0 = len(s.env.events)
        r2 = s.op(('connect',))
        r3 = s.op(scen.op_tuple('shell'))
        viol = []
        if r2 != ('ok', True) or r3 != scen.op_expected('shell', cfg):
            viol.append({'msg': 'after a write that timed out in mid-message, connect()%s + shell gave %r / %r' % (' after close()' if params['close'] else '', r2[:3], r3[:3])})
        viol += [{'msg': '%s: %s' % i} for i in s.env.issues if i[0] == 'frame' and 'session %d' % s.env.sessions in i[1] or i[0] == 'frame2']
        first = [p for w, p in s.env.events[n0:] if w == 'H'][:1]
        if not first or first[0].cmd != b'CNXN':
            viol.append({'msg': 'the first message on the new connection is %r' % (first,)})
        if s.env.dev is not None and s.env.dev.parser.error:
            viol.append({'msg': 'new connection: %s' % s.env.dev.parser.error})
        return {'outcome': (r1[:2], r2[:2], r3[0]), 'viol': viol, 'nontrivial': tuple(sorted((k, str(v)) for k, v in params.items())), 'sample': dict(params, first=r1[:2]), 'trans': len(s.env.events)}
    finally:
        s.finish()


def run_two_devices(params, ch):
    """Two device objects in one process used at the same time (threads / tasks), one of them over a transport that writes
    short: nothing that is shared between the objects may leak from one byte stream into the other."""
    from ..sched import SchedLock, Scheduler
    from .. import vloop
    cfg = scen.ops_cfg('two', 4096)
    twin = params['twin']
    ops = [('shell', 'c', {'decode': False}), ('stat', '/f')]
    viol = []
    if twin == 'sync':
        s1 = Session(ch, cfg, twin='sync', lock_factory=SchedLock, wcap=not params.get('frag'), frag=bool(params.get('frag')), max_calls=5000)
        s2 = Session(ch, cfg, twin='sync', lock_factory=SchedLock, max_calls=5000)
        try:
            s1.op(('connect',))
            s2.op(('connect',))
            sc = Scheduler(ch, max_steps=6000)
            s1.env.sched = sc
            s2.env.sched = sc
            sc.spawn(lambda: [s1.op(o) for o in ops], name='dev1')
            sc.spawn(lambda: [s2.op(o) for o in ops], name='dev2')
            res = sc.run()
            s1.env.sched = s2.env.sched = None
            if sc.verdict:
                viol.append({'msg': 'scheduler verdict: %s' % sc.verdict})
            steps = sc.steps
        finally:
            s2.finish()
            s1.finish()
    else:
        s1 = Session(ch, cfg, twin='async', explore_io=False, frag=bool(params.get('frag')), max_calls=5000)
        s2 = Session(ch, cfg, twin='async', share_loop=s1.loop, max_calls=5000)
        try:
            s1.op(('connect',))
            s2.op(('connect',))
            loop = s1.loop
            loop._explore_io = True
            loop.io_budgeted = True
            s1.env.sched = s2.env.sched = loop

            async def run(s):
                out = []
                for o in ops:
                    try:
                        if o[0] == 'shell':
                            out.append(('ok', await s.dev.shell(o[1], decode=False)))
                        else:
                            out.append(('ok', tuple(await s.dev.stat(o[1]))))
                    except Exception as e:  # pylint: disable=broad-except
                        out.append(('exc', type(e).__name__, str(e)[:100]))
                return out
            try:
                tasks = loop.drive(run(s1), run(s2))
                res = [t.result() for t in tasks]
            except vloop.Deadlock as e:
                res = [[('deadlock',)], [('deadlock',)]]
                viol.append({'msg': 'deadlock: %s' % e})
            loop._explore_io = False
            s1.env.sched = s2.env.sched = None
            steps = loop.steps
        finally:
            s2.finish()
            s1.finish()
    want = [scen.op_expected('shell', cfg), scen.op_expected('stat', cfg)]
    for i, (s, r) in enumerate(((s1, res[0]), (s2, res[1]))):
        for code, msg in s.env.issues:
            viol.append({'msg': 'device %d: %s: %s' % (i + 1, code, msg)})
        if r != want:
            viol.append({'msg': 'device %d: operations gave %r, expected %r' % (i + 1, r, want)})
    dev = [c for c in ch.choices if c]
    return {'outcome': (tuple(tuple(x[0] for x in r) for r in res), steps > 0), 'viol': viol, 'nontrivial': (twin, tuple(ch.choices)) if dev else None,
            'sample': {'twin': twin, 'deviations': [(i, c) for i, c in enumerate(ch.choices) if c][:6]}, 'trans': steps}


def run_reconnect_race(params, ch):
    """One thread is in the middle of an operation while another calls connect() again on the same object: whatever is written to
    each connection must still be a sequence of whole, well-formed messages."""
    from ..sched import SchedLock, Scheduler
    cfg = scen.ops_cfg('two', 4096)
    s = Session(ch, cfg, twin='sync', lock_factory=SchedLock, max_calls=5000)
    try:
        s.op(('connect',))
        sc = Scheduler(ch, max_steps=6000)
        s.env.sched = sc
        sc.spawn(lambda: s.op(('streaming_shell', 'c', {'decode': False, 'transport_timeout_s': 0.5, 'read_timeout_s': 0.5})), name='stream')
        sc.spawn(lambda: s.op(('connect',)), name='reconnect')
        res = sc.run()
        s.env.sched = None
        viol = [{'msg': '%s: %s' % i} for i in s.env.issues if i[0] == 'frame']
        if sc.verdict and not sc.verdict.startswith('livelock'):
            viol.append({'msg': 'scheduler verdict: %s' % sc.verdict})
        if res[1] != ('ok', True):
            viol.append({'msg': 'the concurrent connect() gave %r' % (res[1],)})
        dev = [c for c in ch.choices if c]
        return {'outcome': (res[0][0], res[1][0]), 'viol': viol, 'nontrivial': tuple(ch.choices) if dev else None, 'sample': {'results': [r[0] for r in res]}, 'trans': sc.steps}
    finally:
        s.env.sched = None
        s.finish()


def parts(tier):
    sc = [{'cmd': c, 'a0': a0} for c in frames.NAMES for a0 in B]
    out = [Part('pack-grid', sc, run_grid, what='7 commands x %d^2 argument values x 5 payloads' % len(B), bound='%d packs' % (len(sc) * len(B) * 5))]
    sc = [{'cmd': c, 'kind': 'bytes256'} for c in frames.NAMES] + [{'cmd': c, 'kind': k, 'data': d} for c in frames.NAMES for k, d in payloads(tier)]
    out.append(Part('payload-shapes', sc, run_payload, what='every single byte value and the large payload shapes, bytes and bytearray', bound='%d scenarios' % len(sc)))
    sc = []
    auths = [{}, {'_sim': {'auth': {'first': 'token', 'sig': ['token', 'cnxn'], 'pub': 'cnxn'}}, '_keys': [0, 1]},
             {'_sim': {'auth': {'first': 'token', 'sig': 'token', 'pub': 'cnxn'}}, '_keys': [0]},
             {'_sim': {'auth': {'first': 'token', 'sig': 'token', 'pub': 'cnxn'}}, '_keys': [[0, 'nonascii']]}]      # public key text with a non-ASCII comment
    for twin in ('sync', 'async'):
        for start in (0, 2**31 - 2, 2**32 - 3):
            for md in (4096, 1024 * 1024):
                for chk in ('one', 'bytes'):
                    for ci, con in enumerate(auths):
                        for fail in (None, {'op': 'send', 'when': 'done', 'reason': b'nope'}, {'op': 'recv', 'when': 'start', 'reason': b'nope'}):
                            sc.append({'twin': twin, 'start': start, 'maxdata': md, 'chunking': chk, 'connect': con, 'fail': fail, 'ops': list(scen.OPS8), 'push_size': 9000})
    sc += [{'twin': t, 'start': 0, 'maxdata': 4096, 'chunking': 'two', 'connect': auths[1], 'fail': None, 'ops': list(scen.OPS8), 'push_size': 9000, 'cap': c}
           for t in ('sync', 'async') for c in (1, 5, 7, 23, 24, 25, 100, 4095)]
    sc += [{'twin': t, 'start': 0, 'maxdata': md, 'chunking': 'two', 'connect': con, 'fail': None, 'ops': list(scen.OPS8), 'push_size': 9000, 'version': v}
           for t in ('sync', 'async') for md in (4096, 1024 * 1024) for con in auths for v in (0x01000001, 0x01000000 + 0xFFFF, 1)]
    out.append(Part('sessions', sc, run_session, {'dev-order': None}, what='whole sessions through the strict parser, id counter at the wrap, remote ids at 32-bit extremes',
                    bound='%d sessions' % len(sc)))
    sc = [{'kind': 'open', 'twin': t, 'maxdata': md, 'payload': b + d} for t in ('sync', 'async') for md in (4096, 1024 * 1024) for b in (4096, 65536, 256 * 1024, 1024 * 1024) for d in (-2, -1, 0, 1, 2)
          if b + d <= 1024 * 1024]
    sc += [{'kind': 'push', 'twin': t, 'maxdata': md, 'size': z, 'plen': pl} for t in ('sync', 'async') for md in (4096, 8192, 65536) for pl in (0, 11) for z in range(md - 60 - pl, md - 20 - pl)]
    out.append(Part('boundary-payloads', sc, run_boundary, what='OPEN payloads within +-2 of 4096 / 64 KiB / 256 KiB / 1 MiB and pushes whose first WRTE is within a few bytes of maxdata', bound='%d cases' % len(sc)))
    sc = [{'twin': t, 'cap': cap, 'eps': 0.05, 'rt': rt, 'cmdlen': n, 'close': c} for t in ('sync', 'async') for cap in (16, 5) for rt in (0.01, 0.12, 0.3) for n in (10, 200) for c in (False, True)]
    out.append(Part('slow-write-then-reconnect', sc, run_slow_then_reconnect, what='a write that times out in mid-message over a slow short-writing transport, then connect() again (with/without close()) and a command',
                    bound='%d cases' % len(sc), min_outcomes=2))
    deep = tier == 'thorough'
    out.append(Part('two-devices', [{'twin': 'sync'}], run_two_devices, dict({'sched': 2 if deep else 1, 'wcap': 1, 'dev-order': 0}, **({'total': 2} if deep else {})), split=2, min_outcomes=1,
                    what='two device objects used from two threads, one over a short-writing transport: all schedules with <=%d preemption(s) x one short write' % (2 if deep else 1),
                    bound='preemptions <= %d, short writes <= 1%s' % (2 if deep else 1, ', at most 2 deviations in total' if deep else '')))
    out.append(Part('two-devices-async', [{'twin': 'async'}], run_two_devices, {'io-order': 3 if deep else 2, 'dev-order': 0}, split=2, min_outcomes=1,
                    what='two device objects used from two asyncio tasks on one loop: every placement of <=%d deviations from the default I/O completion order' % (3 if deep else 2),
                    bound='io-order deviations <= %d' % (3 if deep else 2)))
    out.append(Part('reconnect-race', [{}], run_reconnect_race, {'sched': 3 if deep else 2, 'dev-order': 0}, split=2, min_outcomes=1,
                    what='a thread in the middle of a streaming_shell while another thread calls connect() again: every schedule with <=%d preemptions' % (3 if deep else 2),
                    bound='preemptions <= %d' % (3 if deep else 2)))
    return out
