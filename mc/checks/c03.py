"""C03 -- inbound reassembly is independent of read fragmentation; corrupt payloads and unknown commands are rejected."""
from .. import monitor, scen
from ..harness import Session
from ..runner import Part

PROPERTY = 'C03'
LEVEL = 'exploration'
RULE = ('session S = connect, shell (2 WRTE), stat, list (2 entries), pull (2 DATA records cut inside a sync header), push, '
        'run through AdbDevice and AdbDeviceAsync; (a) every placement of <=k read-fragment deviations {1 byte, n-1, half, empty} '
        'over all bulk_read calls, (b) global fragmentation policies, (c) every single-bit corruption of every inbound payload byte (also of the packets of a second, suspended stream that another call reads and parks) '
        'and of the data_check field, (d) unknown command words at every inbound packet, also as a lone header that announces a payload which never follows; oracle = results and host packet log equal '
        'to the unfragmented run, never a request past the current packet, InvalidChecksumError / InvalidCommandError from the call '
        'that read the bad packet; non-trivial = at least one deviation or mutation applied; distinct = distinct (scenario, choice list)')
ASSUMPTIONS = ['adbsim (mc/adbsim.py) is a faithful adbd model', 'virtual clock frozen (eps=0), so only fragmentation varies']

_REF = {}


def timed(op, tkw):
    if not tkw:
        return op
    if isinstance(op[-1], dict):
        return op[:-1] + (dict(op[-1], **tkw),)
    return op + (dict(tkw),)


FOREIGN_OPS = [('connect',), ('gen-start', 'other', {'decode': False}), ('shell', 'cmd1', {'decode': False}), ('stat', '/f'), ('gen-rest', 0)]


def foreign_cfg():
    cfg = scen.std_cfg()
    cfg['shell'] = dict(cfg['shell'])
    cfg['shell'][b'shell:other'] = [b'OTHER-1', b'OTHER-2\xff', b'OTHER-3']
    return cfg


def run_session(twin, cfg, ch, frag, stop_on_exc=False, eps=0.0, tkw=None, ops=None):
    s = Session(ch, cfg, twin=twin, frag=frag, eps=eps)
    res = []
    frames_at = []
    try:
        for op in (ops or scen.std_ops()):
            op = timed(op, tkw)
            res.append(s.op(op))
            frames_at.append(s.env.frames_seen)
            if stop_on_exc and res[-1][0] != 'ok':
                break
        env = s.env
        issues = list(env.issues)
        mon, _ = monitor.check(env.events, completed=all(r[0] == 'ok' for r in res))
        return {'res': res, 'host': monitor.host_log(env.events), 'issues': issues, 'mon': mon, 'fs': scen.fs_view(env),
                'frames_at': frames_at, 'nreads': sum(1 for t in env.timeouts if t[0] == 'r'), 'mutated': env.mutated,
                'devlog': [p for w, p in env.events if w == 'D']}
    finally:
        s.finish()


def reference(twin, foreign=False):
    key = (twin, foreign)
    if key not in _REF:
        from ..chooser import FixedChooser
        _REF[key] = run_session(twin, foreign_cfg() if foreign else scen.std_cfg(), FixedChooser(), False, ops=FOREIGN_OPS if foreign else None)
        assert all(r[0] == 'ok' for r in _REF[key]['res']), _REF[key]['res']
    return _REF[key]


def common_viol(o):
    v = []
    for code, msg in o['issues']:
        v.append({'msg': '%s: %s' % (code, msg)})
    for rule, msg in o['mon']:
        v.append({'msg': 'stream monitor %s: %s' % (rule, msg)})
    return v


def run_frag(params, ch):
    twin = params['twin']
    cfg = scen.std_cfg()
    if params.get('policy'):
        cfg['frag_policy'] = params['policy']
    ref = reference(twin)
    tm = params.get('timing')
    o = run_session(twin, cfg, ch, frag=not params.get('policy'), eps=tm[2] if tm else 0.0,
                    tkw={'transport_timeout_s': tm[0], 'read_timeout_s': tm[1]} if tm else None)
    viol = common_viol(o)
    if o['res'] != ref['res']:
        bad = [i for i, (a, b) in enumerate(zip(o['res'], ref['res'])) if a != b]
        viol.append({'msg': 'results differ from the unfragmented run at operation %s: %r vs %r' % (bad[:1], [o['res'][i] for i in bad[:1]], [ref['res'][i] for i in bad[:1]])})
    if o['host'] != ref['host']:
        viol.append({'msg': 'host packet log differs from the unfragmented run'})
    if o['fs'] != ref['fs']:
        viol.append({'msg': 'pushed file differs from the unfragmented run'})
    dev = sum(1 for c in ch.choices if c)
    return {'outcome': (o['res'], len(o['host']), o['nreads'], params.get('policy'), tm), 'viol': viol,
            'nontrivial': (twin, tuple(ch.choices), params.get('policy'), tm) if (dev or params.get('policy')) else None,
            'sample': {'twin': twin, 'policy': params.get('policy'), 'timing': tm, 'bulk_reads': o['nreads'], 'deviations': [(i, c) for i, c in enumerate(ch.choices) if c]},
            'trans': o['nreads']}


def owner_of(ref, frame):
    for i, end in enumerate(ref['frames_at']):
        if frame < end:
            return i
    return None


def run_mut(params, ch):
    twin = params['twin']
    foreign = bool(params.get('foreign'))
    cfg = foreign_cfg() if foreign else scen.std_cfg()
    cfg['wire_mut'] = params['mut']
    if params.get('version'):
        cfg['version'] = params['version']
    ref = reference(twin, foreign)
    o = run_session(twin, cfg, ch, frag=False, stop_on_exc=True, ops=FOREIGN_OPS if foreign else None)
    viol = []     # after a bad packet the byte stream is desynchronised by definition: only the API outcome is judged
    own = owner_of(ref, params['mut']['frame'])
    want = 'InvalidChecksumError' if params['mut']['kind'] == 'bit' else 'InvalidCommandError'
    if not o['mutated']:
        viol.append({'msg': 'harness: mutation was never applied'})
    n = len(o['res'])
    if o['res'][:own] != ref['res'][:own]:
        viol.append({'msg': 'operations before the bad packet changed: %r' % (o['res'][:own],)})
    elif n <= own:
        viol.append({'msg': 'session stopped before the operation that reads the bad packet'})
    else:
        r = o['res'][own]
        if r[0] == 'ok':
            viol.append({'msg': 'operation %d returned %r although inbound packet %d was bad (%s expected)' % (own, r[1], params['mut']['frame'], want)})
        elif r[0] != 'exc' or r[1] != want:
            viol.append({'msg': 'operation %d ended with %r, expected %s' % (own, r[:2], want)})
    return {'outcome': (own, o['res'][own][:2] if n > own else None), 'viol': viol, 'nontrivial': (twin, tuple(sorted(params['mut'].items()))),
            'sample': {'twin': twin, 'mutation': params['mut'], 'owner_op': own, 'result': o['res'][own][:2] if n > own else None}}


def parts(tier):
    twins = ('sync', 'async')
    k = 2 if tier == 'quick' else 3
    out = [Part('frag-dfs', [{'twin': t} for t in twins], run_frag, {'frag': k}, split=1 if tier == 'quick' else 2,
                what='all placements of <=%d fragment deviations over every bulk_read of S, both twins' % k, bound='frag deviations <= %d' % k)]
    pols = ['one', 'two', 'alt-empty-one', 'n-1', 'half', 'empty-then-full']
    out.append(Part('policies', [{'twin': t, 'policy': p} for t in twins for p in pols], run_frag,
                    what='global fragmentation policies', bound='6 policies x 2 twins', min_outcomes=2))
    timings = [(0, 10, 0.01), (0.05, 10, 0.01), (0.5, 3, 0.001)]
    out.append(Part('slow-fragments', [{'twin': t, 'policy': p, 'timing': tm} for t in twins for p in pols for tm in timings], run_frag,
                    what='the same policies on a clock that advances with every transport call, with a per-call transport timeout (0 = polling, 0.05 s, 0.5 s) far below the '
                         'read timeout: every fragment arrives in time and the whole packet well within read_timeout_s, so the results must not change',
                    bound='6 policies x 3 (transport timeout, read timeout, seconds per call) x 2 twins', min_outcomes=2))
    out.append(Part('slow-fragments-dfs', [{'twin': t, 'timing': timings[1]} for t in twins], run_frag, {'frag': 1},
                    what='every single fragment deviation on the advancing clock (transport timeout 0.05 s, read timeout 10 s, 0.01 s per call)', bound='frag deviations <= 1'))
    from . import c02
    out.append(Part('two-devices-fragmented', [{'twin': 'async', 'frag': True}], c02.run_two_devices, {'io-order': 1, 'frag': 1, 'dev-order': 0}, split=2, min_outcomes=1,
                    what='two device objects used from two asyncio tasks, the reads of one of them fragmented: every placement of one fragment deviation x one deviation from the default I/O completion order',
                    bound='frag deviations <= 1, io-order deviations <= 1'))
    out.append(Part('two-devices-fragmented-threads', [{'twin': 'sync', 'frag': True}], c02.run_two_devices, {'sched': 1, 'frag': 1, 'dev-order': 0}, split=2, min_outcomes=1,
                    what='the same with two threads: one preemption x one fragment deviation', bound='preemptions <= 1, frag deviations <= 1'))
    ref = reference('sync')
    muts = []
    cmds = []
    from .. import frames
    words = [0, 0xFFFFFFFF, int.from_bytes(b'STLS', 'little')] + [frames.S[k] for k in (b'FAIL', b'DATA', b'DONE', b'STAT', b'LIST', b'DENT', b'SEND', b'RECV', b'QUIT')]
    words += [w ^ (1 << b) for w in frames.UNWIRE for b in range(32)]
    words = [w for w in dict.fromkeys(words) if w not in frames.UNWIRE]
    for k, p in enumerate(ref['devlog']):
        if p.data:
            for off in range(len(p.data)):
                for bit in range(8):
                    muts.append({'frame': k, 'kind': 'bit', 'off': 24 + off, 'bit': bit})
            for bit in range(32):
                muts.append({'frame': k, 'kind': 'bit', 'off': 16 + bit // 8, 'bit': bit % 8})
        for w in words:
            for magic in (True, False):
                cmds.append({'frame': k, 'kind': 'cmd', 'word': w, 'magic': magic})
    tw = twins if tier == 'thorough' else ('sync',)
    if tier == 'quick':
        cmds = [c for c in cmds if c['magic'] or c['word'] in words[:12]]
    lonely = [dict(c, lonely=True) for c in cmds if c['magic'] and c['word'] in words[:6]]
    cmds = cmds + lonely
    vmuts = [m for i, m in enumerate(muts) if i % 7 == 0]
    out.append(Part('corrupt-newer-device', [{'twin': t, 'mut': m, 'version': 0x01000001} for t in tw for m in vmuts], run_mut,
                    what='the same bit flips against a device that announces protocol version 0x01000001 in its CNXN (the host announced 0x01000000, so checksums still apply)',
                    bound='%d flips (every 7th of the full set)' % len(vmuts)))
    # a second live stream: its packets are read (and parked) by whichever call is reading -- a corrupted one must still never reach its owner
    fref = reference('sync', True)
    fm = []
    for k, p in enumerate(fref['devlog']):
        if p.data and k >= fref['frames_at'][1]:
            for off in range(len(p.data)):
                for bit in ((0, 7) if off else range(8)):
                    fm.append({'frame': k, 'kind': 'bit', 'off': 24 + off, 'bit': bit})
            for bit in range(32):
                fm.append({'frame': k, 'kind': 'bit', 'off': 16 + bit // 8, 'bit': bit % 8})
    out.append(Part('corrupt-beside-a-live-stream', [{'twin': t, 'mut': m, 'foreign': True} for t in twins for m in fm], run_mut, {'dev-order': -1},      # wire order fixed (oldest packet first): mutations are addressed by wire index
                    what='bit flips in every packet that arrives while a suspended streaming_shell and another call share the connection (packets of the stream that is not reading included)',
                    bound='%d flips x 2 twins' % len(fm)))
    out.append(Part('corrupt', [{'twin': t, 'mut': m} for t in tw for m in muts], run_mut,
                    what='every single-bit flip of every inbound payload byte and of data_check, one per execution', bound='%d flips' % len(muts)))
    out.append(Part('unknown-cmd', [{'twin': t, 'mut': m} for t in tw for m in cmds], run_mut,
                    what='unknown command words at every inbound packet index', bound='%d (packet, word, magic) cases' % len(cmds)))
    return out
