"""C04 -- per-stream protocol conformance of everything the host sends."""
from .. import oracle, scen
from ..harness import Session
from ..runner import Part

PROPERTY = 'C04'
LEVEL = 'exploration'
RULE = ('every sequence of <=k operations over {shell, exec_out, streaming_shell, root, list, stat, pull, push} on one connection (ids and leftover state chain) x '
        'remote-id families {small, 32-bit extremes, reused id, mirrored ids} x maxdata {4096, 64 KiB, 1 MiB} x chunkings {one, two, byte-wise} x CLSE {after ack, eager} x '
        'push size {single, multi WRTE} x twins, device wire order enumerated; a slow device (late WRTE/CLSE against timeout_s, late OKAY inside a multi-WRTE push, late confirmation of a host-initiated close); the device closing the stream on its own after 0..3 WRTEs; the device refusing the OPEN; oracle: the stream monitor of mc/monitor.py (OPEN shape and fresh id, '
        '(local, announced remote) on every later packet, host OKAYs == device WRTEs, stop-and-wait, exactly one CLSE, nothing after it), the model stalling '
        'on a missing OKAY, and each result equal to the model\'s ground truth; non-trivial = sequence non-empty; distinct = distinct parameter tuple')
ASSUMPTIONS = ['adbsim is a faithful adbd model', 'completion rules are asserted on operations that succeed (the quantifier of C04)']


def run_seq(params, ch):
    cfg = scen.ops_cfg(params['chunking'], params['maxdata'], params['clse'], params['family'])
    if params.get('okay'):
        cfg['okay_order'] = params['okay']
    s = Session(ch, cfg, twin=params['twin'])
    try:
        res = [s.op(('connect',))]
        viol = []
        for name in params['ops']:
            psize = params.get('push_size', 40)
            r = s.op(scen.op_tuple(name, psize))
            res.append(r)
            want = scen.op_expected(name, cfg)
            if r != want:
                viol.append({'msg': '%s returned %r, expected %r' % (name, r, want)})
            if name == 'push' and r[0] == 'ok':
                last = s.env.fs.sends[-1] if s.env.fs.sends else None
                if not last or last[0] != b'/g' or last[3] != scen.push_data(psize) or last[2] != 7:
                    viol.append({'msg': 'push: device filesystem received %r' % (last and (last[0], last[1], last[2], len(last[3])),)})
        viol += oracle.base_viol(s, completed=all(r[0] == 'ok' for r in res))
        wrtes = [len(p.data) for w, p in s.env.events if w == 'H' and p.cmd == b'WRTE']
        return {'outcome': (tuple(r[0] for r in res), tuple((p.cmd, p.a0, p.a1, len(p.data)) for w, p in s.env.events if w == 'H')), 'viol': viol,
                'nontrivial': tuple(sorted((k, str(v)) for k, v in params.items())) if params['ops'] else None,
                'sample': dict(params, host_packets=len([1 for w, _ in s.env.events if w == 'H']), host_wrte_sizes=wrtes[:6]), 'trans': len(s.env.events)}
    finally:
        s.finish()


def run_early(params, ch):
    """The device writes on the stream (a sync FAIL) before it acknowledges a later host WRTE: every legal position."""
    cfg = scen.ops_cfg('one', 4096, params['clse'], params['family'])
    cfg['fail'] = {'op': 'send', 'when': tuple(params['when']) if isinstance(params['when'], list) else params['when'], 'reason': b'denied', 'delay': params['delay']}
    s = Session(ch, cfg, twin=params['twin'])
    try:
        s.op(('connect',))
        r = s.op(scen.op_tuple('push', params['size']))
        r2 = s.op(scen.op_tuple('stat'))
        viol = oracle.base_viol(s, completed=False)
        if r[:2] != ('exc', 'PushFailedError'):
            viol.append({'msg': 'rejected push ended with %r' % (r[:2],)})
        if r2 != scen.op_expected('stat', cfg):
            viol.append({'msg': 'stat after the rejected push returned %r' % (r2,)})
        order = tuple(p.cmd for w, p in s.env.events if w == 'D')
        return {'outcome': (r[:2], order), 'viol': viol, 'nontrivial': tuple(sorted((k, str(v)) for k, v in params.items())),
                'sample': dict(params, device_order=[c.decode() for c in order][:12]), 'trans': len(s.env.events)}
    finally:
        s.finish()


def run_inflight(params, ch):
    """A host-initiated close while the device still has a WRTE in flight: pull into a sink that fails at its k-th write."""
    cfg = scen.ops_cfg(params['chunking'], 4096, params['clse'], params['family'])
    cfg['records'] = 5
    s = Session(ch, cfg, twin=params['twin'])
    try:
        s.op(('connect',))
        r = s.op(('pull', '/f', 'failsink:%d' % params['k']))
        r2 = s.op(scen.op_tuple('stat'))
        viol = oracle.base_viol(s, completed=False)
        if r[0] != 'exc':
            viol.append({'msg': 'harness: pull into a failing sink returned %r' % (r,)})
        if r2 != scen.op_expected('stat', cfg):
            viol.append({'msg': 'stat after the aborted pull returned %r' % (r2,)})
        return {'outcome': (r[:2], tuple((p.cmd, p.a0) for w, p in s.env.events if w == 'H')), 'viol': viol, 'nontrivial': tuple(sorted((k, str(v)) for k, v in params.items())),
                'sample': dict(params, result=r[:2], host_packets=[p.cmd.decode() for w, p in s.env.events if w == 'H'][-8:]), 'trans': len(s.env.events)}
    finally:
        s.finish()


def run_abandoned(params, ch):
    """A streaming_shell generator that the caller stops consuming after k items: every WRTE that was delivered must have been
    acknowledged exactly once, and later operations must work."""
    cfg = scen.ops_cfg('bytes', 4096, params['clse'], params['family'])
    s = Session(ch, cfg, twin=params['twin'])
    try:
        s.op(('connect',))
        k = params['k']
        if params['twin'] == 'sync':
            def body(d):
                g = d.streaming_shell('c', decode=False)
                got = [next(g) for _ in range(k)]
                g.close()
                return got
        else:
            async def body(d):
                g = d.streaming_shell('c', decode=False)
                got = [await g.__anext__() for _ in range(k)]
                await g.aclose()
                return got
        r = s.run(body)
        mon, streams = [], []
        from .. import monitor
        mon, streams = monitor.check(s.env.events, completed=False)
        viol = [{'msg': 'stream monitor %s: %s' % m} for m in mon] + [{'msg': '%s: %s' % i} for i in s.env.issues]
        if r != ('ok', scen.chunk(scen.SHELL_OUT, 'bytes')[:k]):
            viol.append({'msg': 'first %d items of streaming_shell were %r' % (k, r)})
        if streams and streams[0].h_okay != k:
            viol.append({'msg': '%d device WRTEs were delivered to the caller but the host sent %d OKAYs on that stream' % (k, streams[0].h_okay)})
        r2 = s.op(scen.op_tuple('stat'))
        if r2 != scen.op_expected('stat', cfg):
            viol.append({'msg': 'stat after the abandoned generator returned %r' % (r2,)})
        return {'outcome': (r[0], k), 'viol': viol, 'nontrivial': tuple(sorted((kk, str(v)) for kk, v in params.items())), 'sample': dict(params, result=r[0]), 'trans': len(s.env.events)}
    finally:
        s.finish()


def run_slow(params, ch):
    """A slow but legal device on an advancing clock.  kind 'shell': every WRTE / the CLSE reaches the wire late and the caller gave a
    total timeout_s; kind 'push': the OKAY of the n-th host WRTE is late.  The rules are those of the property, whatever the call
    returns: a device CLSE that the host has
    read is answered with exactly one CLSE, and no host WRTE leaves before the previous one was acknowledged."""
    from .. import monitor
    twin = params['twin']
    if params['kind'] == 'shell':
        cfg = scen.ops_cfg(params['chunking'], 4096, params['clse'], 'small')
        cfg['wrte_delay'] = params['wd']
        cfg['clse_delay'] = params['cd']
        kw = {'decode': False, 'read_timeout_s': 1.0, 'timeout_s': params['total']}
        s = Session(ch, cfg, twin=twin)
        try:
            s.op(('connect',))
            r = s.op((params['api'], 'c', kw))
            mon, streams = monitor.check(s.env.events, completed=(r[0] == 'ok'))
            viol = [{'msg': 'stream monitor %s: %s' % m} for m in mon] + [{'msg': '%s: %s' % i} for i in s.env.issues]
            st = streams[0] if streams else None
            want = b''.join(cfg['shell'][b'shell:c' if params['api'] == 'shell' else b'exec:c'])
            if r[0] == 'ok' and r[1] != want:
                viol.append({'msg': '%s returned %r, device wrote %r' % (params['api'], r[1], want)})
            if r[0] == 'exc' and r[1] not in ('AdbTimeoutError', 'TcpTimeoutException'):
                viol.append({'msg': '%s ended with %r' % (params['api'], r)})
            if st is None:
                viol.append({'msg': 'no stream was opened'})
            elif st.d_clse and st.h_clse != 1:
                viol.append({'msg': 'the host read the device\'s CLSE but sent %d CLSE packets on that stream (call ended with %r; slow device %r)' % (st.h_clse, r[:2], params)})
            return {'outcome': (r[:2], st.h_okay if st else None, st.d_clse if st else None, st.h_clse if st else None), 'viol': viol, 'nontrivial': tuple(sorted((k, str(v)) for k, v in params.items())),
                    'sample': dict(params, result=r[:2]), 'trans': len(s.env.events)}
        finally:
            s.finish()
    if params['kind'] == 'close':
        # the device confirms a host-initiated close late (later than the read timeout, or just in time)
        cfg = scen.ops_cfg(params['chunking'], 4096, 'after-ack', 'small')
        cfg['clse_reply_delay'] = params['delay']
        s = Session(ch, cfg, twin=twin)
        try:
            s.op(('connect',))
            op = scen.op_tuple(params['op'])
            op = op[:-1] + (dict(op[-1], read_timeout_s=1.0),) if isinstance(op[-1], dict) else op + ({'read_timeout_s': 1.0},)
            r = s.op(op)
            viol = oracle.base_viol(s, completed=(r[0] == 'ok'))
            if r[0] == 'ok' and r != scen.op_expected(params['op'], cfg):
                viol.append({'msg': '%s returned %r' % (params['op'], r)})
            if params['delay'] < 1.0 and r[0] != 'ok':
                viol.append({'msg': '%s ended with %r although the device confirmed the close after %.1f s (read timeout 1 s)' % (params['op'], r[:2], params['delay'])})
            return {'outcome': (r[:2],), 'viol': viol, 'nontrivial': tuple(sorted((k, str(v)) for k, v in params.items())), 'sample': dict(params, result=r[:2]), 'trans': len(s.env.events)}
        finally:
            s.finish()
    cfg = scen.ops_cfg('one', 4096, 'after-ack', 'small')
    cfg['okay_delay'] = {'nth': params['nth'], 'delay': params['delay']}
    s = Session(ch, cfg, twin=twin)
    try:
        s.op(('connect',))
        data = scen.push_data(params['size'])
        kw = {'mtime': 7, 'read_timeout_s': 1.0}
        if params.get('cb'):
            kw['cb'] = params['cb']
        r = s.op(('push', ('bytes', data), '/g', kw))
        viol = oracle.base_viol(s, completed=(r[0] == 'ok'))
        if r[0] == 'ok':
            last = s.env.fs.sends[-1] if s.env.fs.sends else None
            if not last or last[3] != data:
                viol.append({'msg': 'push returned normally but the device holds %r' % (last and len(last[3]),)})
        nw = sum(1 for w, p in s.env.events if w == 'H' and p.cmd == b'WRTE')
        return {'outcome': (r[:2], nw), 'viol': viol, 'nontrivial': tuple(sorted((k, str(v)) for k, v in params.items())),
                'sample': dict(params, result=r[:2], host_wrtes=nw), 'trans': len(s.env.events)}
    finally:
        s.finish()


def run_dies(params, ch):
    """The device closes a stream on its own before the operation is through (service died: CLSE instead of the next WRTE).  Whatever the
    call reports, the stream rules hold: that CLSE is answered with exactly one CLSE and nothing else follows on the stream; the next
    operation on the connection works."""
    cfg = scen.ops_cfg(params['chunking'], 4096, params['clse'], params['family'])
    cfg['die'] = {'stream': 0, 'after': params['after']}
    s = Session(ch, cfg, twin=params['twin'], eps=0.001)
    try:
        s.op(('connect',))
        kw = {'transport_timeout_s': 0.05, 'read_timeout_s': 0.2}
        op = scen.op_tuple(params['op'], 9000)
        op = op[:-1] + (dict(op[-1], **kw),) if isinstance(op[-1], dict) else op + (kw,)
        r = s.op(op)
        r2 = s.op(scen.op_tuple('stat'))
        viol = oracle.base_viol(s, completed=False)
        want = scen.op_expected(params['op'], cfg)
        if params['op'] in ('shell', 'exec_out', 'streaming_shell', 'root'):
            # a command whose stream the device closes has simply ended: what was written before is its output
            full = want[1] if want[1] is not None else b''
            if r[0] == 'ok' and r[1] is not None and (list(full[:len(r[1])]) != list(r[1])):
                viol.append({'msg': '%s returned %r, the device wrote (a prefix of) %r' % (params['op'], r, full)})
        elif r[0] == 'ok' and r != want:
            viol.append({'msg': '%s returned %r although the device closed the stream early; expected an error or %r' % (params['op'], r, want)})
        if r2 != scen.op_expected('stat', cfg):
            viol.append({'msg': 'stat after a stream that the device closed early returned %r' % (r2,)})
        from .. import monitor
        _m, streams = monitor.check(s.env.events, completed=False)
        st = streams[0] if streams else None
        if st is not None and st.d_clse and st.h_clse > 1:
            viol.append({'msg': 'the device closed the stream; the host sent %d CLSE packets on it' % st.h_clse})
        return {'outcome': (r[:2], st.h_clse if st else None, st.d_wrte if st else None), 'viol': viol, 'nontrivial': tuple(sorted((k, str(v)) for k, v in params.items())),
                'sample': dict(params, result=r[:2], host_clse=st.h_clse if st else None), 'trans': len(s.env.events)}
    finally:
        s.finish()


def run_refused(params, ch):
    """The device refuses an OPEN (CLSE with arg0 = 0, as adbd does for a service it cannot start).  The stream was never established:
    apart from the OPEN the host sends nothing that carries its id, the call fails, and the next operation works."""
    cfg = scen.ops_cfg('two', 4096, 'after-ack', params['family'])
    dest = {'shell': b'shell:c', 'exec_out': b'exec:c', 'streaming_shell': b'shell:c', 'root': b'root:'}.get(params['op'], b'sync:')
    cfg['reject_open'] = [dest]
    s = Session(ch, cfg, twin=params['twin'], eps=0.001)
    try:
        s.op(('connect',))
        kw = {'transport_timeout_s': 0.05, 'read_timeout_s': 0.2}
        op = scen.op_tuple(params['op'], 5000)
        op = op[:-1] + (dict(op[-1], **kw),) if isinstance(op[-1], dict) else op + (kw,)
        r = s.op(op)
        follow = 'stat' if dest != b'sync:' else 'exec_out' if dest != b'exec:c' else 'shell'
        r2 = s.op(scen.op_tuple(follow))
        viol = oracle.base_viol(s, completed=False)
        if r[0] == 'ok':
            viol.append({'msg': '%s returned %r although the device refused to open the stream' % (params['op'], r[1])})
        if r2 != scen.op_expected(follow, cfg):
            viol.append({'msg': '%s after a refused open returned %r' % (follow, r2)})
        refused_id = next((p.a0 for w, p in s.env.events if w == 'H' and p.cmd == b'OPEN'), None)
        later = [(p.cmd, p.a0, p.a1) for w, p in s.env.events if w == 'H' and p.cmd != b'OPEN' and p.cmd != b'CNXN' and p.a0 == refused_id]
        if later:
            viol.append({'msg': 'the device refused the OPEN of stream %r, yet the host went on sending on it: %r' % (refused_id, later[:3])})
        return {'outcome': (r[:2], r2[0]), 'viol': viol, 'nontrivial': tuple(sorted((k, str(v)) for k, v in params.items())), 'sample': dict(params, result=r[:2]), 'trans': len(s.env.events)}
    finally:
        s.finish()


def run_interleaved(params, ch):
    """Two live streams on one thread: a suspended streaming_shell whose packets get parked while another operation runs."""
    from . import c01
    o = c01.run_iso(params, ch)
    return o


def seqs(k):
    out = [()]
    lvl = [()]
    for _ in range(k):
        lvl = [p + (o,) for p in lvl for o in scen.OPS8]
        out += lvl
    return out


def parts(tier):
    k = 2 if tier == 'quick' else 3
    sc = []
    for ops in seqs(k):
        for fam in ('small', 'extreme', 'same', 'mirror'):
            for md in (4096, 65536, 1024 * 1024):
                for chk in ('one', 'two', 'bytes'):
                    for clse in ('after-ack', 'eager'):
                        for twin in ('sync', 'async'):
                            if len(ops) == 3 and md != 4096:
                                continue          # length 3: all 9 (family, chunking) combinations at maxdata 4096
                            for ps in ((40, 9000) if 'push' in ops else (40,)):
                                sc.append({'ops': list(ops), 'family': fam, 'maxdata': md, 'chunking': chk, 'clse': clse, 'twin': twin, 'push_size': ps})
    sc2 = [{'size': z, 'when': w, 'delay': d, 'twin': t, 'clse': c, 'family': f} for z in (5000, 9000, 17000) for w in ('header', ['data', 1], ['data', 2])
           for d in range(0, 6) for t in ('sync', 'async') for c in ('after-ack', 'eager') for f in ('small', 'extreme')]
    early = Part('device-write-before-okay', sc2, run_early, {'dev-order': None}, what='a device WRTE (sync FAIL) at every legal position among its OKAYs during a multi-WRTE push, '
                 'followed by another operation', bound='%d cases' % len(sc2))
    sc3 = [{'ops': [o], 'family': 'extreme', 'maxdata': 4096, 'chunking': chk, 'clse': 'after-ack', 'twin': t, 'push_size': ps, 'okay': 'choice'}
           for o in ('list', 'stat', 'pull', 'push') for chk in ('one', 'two', 'bytes') for t in ('sync', 'async') for ps in ((40, 9000) if o == 'push' else (40,))]
    okord = Part('reply-vs-okay-order', sc3, run_seq, {'dev-order': None, 'okay-order': 2}, what='for every host WRTE the device either acknowledges first (adbd) or lets its reply overtake the OKAY',
                 bound='<=2 overtaking replies per operation')
    sc4 = [{'chunking': chk, 'clse': c, 'family': f, 'twin': t, 'k': k} for chk in ('one', 'two', 'bytes') for c in ('after-ack', 'eager') for f in ('small', 'extreme') for t in ('sync', 'async')
           for k in (0, 1, 2, 5)]
    inflight = Part('close-with-data-in-flight', sc4, run_inflight, {'dev-order': None}, what='host-initiated CLSE while a device WRTE is still in flight (pull into a sink failing at its k-th write), then another operation',
                    bound='%d cases' % len(sc4))
    sc5 = [{'twin': t, 'api': a, 'decode': False, 'clse': c, 'nother': n, 'family': f} for t in ('sync', 'async') for a in ('shell', 'exec_out', 'streaming_shell') for c in ('after-ack', 'eager')
           for n in (3, 1) for f in ('small', 'mirror')]
    sc5 += [{'twin': t, 'api': a, 'decode': False, 'clse': c, 'nother': n, 'family': 'small', 'rounds': 2} for t in ('sync', 'async') for a in ('shell', 'exec_out') for c in ('after-ack', 'eager') for n in (2, 3)]
    inter = Part('interleaved-streams', sc5, run_interleaved, {'dev-order': None}, what='a suspended stream whose packets are parked and later delivered from the store: each delivered WRTE must still be acknowledged once',
                 bound='%d cases x all wire orders' % len(sc5))
    sc6 = [{'twin': t, 'k': k, 'clse': c, 'family': f} for t in ('sync', 'async') for k in (1, 2, 5) for c in ('after-ack', 'eager') for f in ('small', 'extreme')]
    aband = Part('abandoned-generator', sc6, run_abandoned, {'dev-order': None}, what='streaming_shell abandoned after k items: delivered WRTEs == host OKAYs', bound='%d cases' % len(sc6), min_outcomes=1)
    sc7 = [{'kind': 'shell', 'api': api, 'twin': t, 'chunking': chk, 'clse': c, 'wd': wd, 'cd': cd, 'total': tot} for t in ('sync', 'async') for chk in ('one', 'two', 'bytes') for c in ('after-ack', 'eager')
           for wd in (0.0, 0.3, 0.6) for cd in (0.0, 0.3, 0.6) for tot in (None, 0.2, 0.5, 0.8, 1.4, 5.0) for api in ('shell', 'exec_out') if wd or cd]
    sc7 += [{'kind': 'push', 'twin': t, 'size': z, 'nth': n, 'delay': d, 'cb': cb} for t in ('sync', 'async') for z in (5000, 9000) for n in (1, 2, 3, 4) for d in (0.5, 1.5, 30.0) for cb in (None, 'count', 'raise')]
    sc7 += [{'kind': 'close', 'twin': t, 'op': o, 'chunking': chk, 'delay': d} for t in ('sync', 'async') for o in ('list', 'stat', 'pull', 'push') for chk in ('one', 'bytes') for d in (0.5, 1.5, 30.0)]
    slow = Part('slow-device', sc7, run_slow, {'dev-order': None}, what='a slow but legal device on an advancing clock: late WRTEs / CLSE against the total timeout_s of shell and exec_out, and a late OKAY for the n-th WRTE of a '
                'multi-WRTE push (read timeout 1 s)', bound='%d cases' % len(sc7))
    sc8 = [{'op': o, 'after': a, 'chunking': chk, 'clse': c, 'family': f, 'twin': t} for o in scen.OPS8 for a in (0, 1, 2, 3) for chk in ('two', 'bytes') for c in ('after-ack', 'eager') for f in ('small', 'mirror')
           for t in ('sync', 'async')]
    dies = Part('device-closes-early', sc8, run_dies, {'dev-order': None}, what='the device closes the stream on its own after 0..3 of its WRTEs (service died), for each of the 8 operations; then another operation',
                bound='%d cases' % len(sc8))
    sc9 = [{'op': o, 'family': f, 'twin': t} for o in scen.OPS8 for f in ('small', 'extreme', 'mirror') for t in ('sync', 'async')]
    refused = Part('refused-open', sc9, run_refused, {'dev-order': None}, what='the device refuses the OPEN of each of the 8 operations (CLSE with arg0 = 0); then another operation', bound='%d cases' % len(sc9), min_outcomes=1)
    return [early, okord, inflight, inter, aband, slow, dies, refused, Part('op-sequences', sc, run_seq, {'dev-order': None}, what='operation sequences of length <=%d x device parameters' % k,
                      bound='length <=%d%s' % (k, '; length-3 sequences at maxdata 4096 only' if k == 3 else ''))]
