"""C05 -- the CNXN/AUTH handshake follows the ADB authentication state machine (explored on the real connect())."""
from .. import oracle
from ..harness import Session, StubSigner
from ..runner import Part

PROPERTY = 'C05'
LEVEL = 'model_checking'
RULE = ('the real connect() against a device whose every decision is a choice point, enumerated completely: keys 0..4; first reply {CNXN, AUTH(TOKEN), AUTH(arg0 != TOKEN), silence}; '
        'after each signature {fresh token, CNXN, AUTH(non-token), silence}; after the public key {CNXN after a delay shorter than the auth timeout but longer than the transport timeout, '
        'CNXN after the auth timeout, never}; CNXN maxdata {4096, 256 KiB, 1 MiB}; <=2 stray packets of a dead stream before any awaited reply; callback {none, recording, raising}; '
        'str and bytes public keys; auth_timeout_s None (the wait for the user has no limit); device maxdata up to 4 MiB with a following push whose largest WRTE must exceed what the next smaller announcement would allow; then a second connect() on the same object under every outcome of the first (keys <= 2). Oracle = reference handshake spec: exact expected host packet '
        'sequence (CNXN first, signature i by key i over the most recent token, each key once, none after acceptance, callback exactly once and only before the public key of key 0 + NUL), '
        'return/exception type, `available`, adopted maxdata (0 < max_chunk_size <= min(64 KiB, maxdata); a following push never exceeds maxdata per WRTE and exceeds 4 KiB when the device announced >= 64 KiB). States = (keys, signatures seen, last decision); non-trivial = the '
        'device demanded authentication; distinct = distinct decision sequences x configuration')
ASSUMPTIONS = ['adbsim auth machine (mc/auth.py) per adbd handle_packet A_CNXN/A_AUTH', 'stub signers Sign(t) = tag(key) + t make "which key signed which token" checkable; RSA itself is C17']
TT, RT, AT = 1.0, 2.0, 5.0
TIMEOUTS = ('AdbTimeoutError', 'TcpTimeoutException')


def reference(nkeys, log, pub_bytes, cb, at_none=False):
    """Expected host AUTH packets and outcome for the decision log [(key, value), ...] of one connect()."""
    it = iter(log)
    exp = []           # expected (arg0, payload-kind)
    k, v = next(it)
    assert k == 'first'
    if v == 'cnxn':
        return exp, 'ok', 0
    if v == 'silent':
        return exp, 'timeout', 0
    if nkeys == 0:
        return exp, 'DeviceAuthError', 0
    challenge = v
    for i in range(nkeys):
        if challenge != 'token':
            return exp, 'InvalidResponseError', 0
        exp.append(('sig', i))
        k, v = next(it)
        if v == 'cnxn':
            return exp, 'ok', 0
        if v == 'silent':
            return exp, 'timeout', 0
        challenge = v
    if cb == 'raise':
        return exp, 'RuntimeError', 1
    exp.append(('pub', 0))
    k, v = next(it)
    if at_none:
        # auth_timeout_s=None: wait without limit for the user to accept the key
        return exp, ('ok' if v in ('cnxn', 'late') else 'blocked'), (1 if cb else 0)
    return exp, ('ok' if v == 'cnxn' else 'timeout'), (1 if cb else 0)


def one_connect(s, nkeys, cb, pub_bytes, strays, maxdata, viol, tag, kform=None, at=AT):
    env = s.env
    keys = getattr(s, 'c05_keys', None)        # the same signer objects serve every connect() of one execution
    if keys is None or len(keys) != nkeys:
        keys = s.c05_keys = [StubSigner(i, pub_bytes) for i in range(nkeys)]
    calls = []

    def callback(dev):
        calls.append(len([1 for w, p in env.events[mark:] if w == 'H' and p.cmd == b'AUTH']))
        if cb == 'raise':
            raise RuntimeError('callback failure')
    mark = len(env.events)
    kw = {'transport_timeout_s': TT, 'read_timeout_s': RT, 'auth_timeout_s': at,
          '_sim': {'auth': {'first': 'choose', 'sig': 'choose', 'pub': 'choose', 'strays': strays, 'maxdata': maxdata, 'pub_delay': 2.5, 'late_delay': 7.0}}}
    if kform == 'tuple':
        kw['rsa_keys'] = tuple(keys)
    elif kform == 'list' or (nkeys and kform is None):
        kw['rsa_keys'] = keys
    elif kform == 'none':
        kw['rsa_keys'] = None
    if cb:
        kw['auth_callback'] = callback
    r = s.op(('connect', kw))
    auth = env.auths[-1] if env.auths else None
    log = [(k, v) for k, v in (auth.log if auth else [])]
    hp = [p for w, p in env.events[mark:] if w == 'H']
    try:
        exp, outcome, ncb = reference(nkeys, log, pub_bytes, cb, at is None)
    except StopIteration:
        # the device model stopped deciding before the handshake spec was through: it never recognised a packet the host owed it
        viol.append({'msg': '%s: the device received no well-formed packet where the handshake spec expects the next one (decisions so far %r, issues %r, connect() gave %r)' % (tag, log, env.issues[:2], r[:2])})
        return r, log, [(nkeys, i, kv) for i, kv in enumerate(log)]
    # 1. first packet
    if not hp or hp[0].key() != (b'CNXN', 0x01000000, 1024 * 1024, b'host::verif\0'):
        viol.append({'msg': '%s: first host packet is %r' % (tag, hp[:1])})
    # 2. the exact AUTH sequence
    got = []
    for p in hp[1:]:
        if p.cmd != b'AUTH':
            viol.append({'msg': '%s: host sent %r during the handshake' % (tag, p)})
            continue
        got.append(p)
    if len(got) != len(exp):
        viol.append({'msg': '%s: host sent %d AUTH packets %r, the handshake spec expects %r (device decisions %r)' % (tag, len(got), [(p.a0, p.data[:12]) for p in got], exp, log)})
    else:
        for j, (p, (kind, i)) in enumerate(zip(got, exp)):
            if kind == 'sig':
                tok = auth.sigs[j][1] if j < len(auth.sigs) else None
                if p.a0 != 2 or p.a1 != 0 or p.data != b'SIG[%d]:' % i + (tok or b''):
                    viol.append({'msg': '%s: AUTH #%d is %r, expected the signature of key %d over the most recent token %r' % (tag, j, (p.a0, p.a1, p.data[:40]), i, tok)})
            else:
                pk0 = StubSigner(0, pub_bytes).GetPublicKey()
                want = (bytes(pk0) if isinstance(pk0, (bytes, bytearray)) else pk0.encode('utf-8')) + b'\0'
                if p.a0 != 3 or p.a1 != 0 or p.data != want:
                    viol.append({'msg': '%s: AUTH #%d is %r, expected the NUL-terminated public key of key 0' % (tag, j, (p.a0, p.a1, p.data[:40]))})
    if keys and pub_bytes == 'bytearray' and bytes(keys[0].GetPublicKey()) != b'PUBKEY-0 user@host':
        viol.append({'msg': '%s: connect() modified the signer\'s own public key object: it now reads %r' % (tag, bytes(keys[0].GetPublicKey()))})
    # 3. callback
    if len(calls) != ncb:
        viol.append({'msg': '%s: auth callback invoked %d times, expected %d (decisions %r)' % (tag, len(calls), ncb, log)})
    elif ncb and calls[0] != nkeys:
        viol.append({'msg': '%s: auth callback invoked after %d AUTH packets, expected after all %d signatures and before the public key' % (tag, calls[0], nkeys)})
    # 4. outcome
    if outcome == 'ok':
        if r != ('ok', True):
            viol.append({'msg': '%s: device accepted (decisions %r) but connect() gave %r' % (tag, log, r)})
    elif outcome == 'blocked':
        if r[0] != 'hang' and (r[0] != 'exc' or r[1] not in TIMEOUTS):
            viol.append({'msg': '%s: device never accepts (decisions %r) and auth_timeout_s is None, but connect() gave %r' % (tag, log, r[:2])})
    elif outcome == 'timeout':
        if r[0] != 'exc' or r[1] not in TIMEOUTS:
            viol.append({'msg': '%s: device never accepted in time (decisions %r) but connect() gave %r' % (tag, log, r[:2])})
    else:
        if r[:2] != ('exc', outcome):
            viol.append({'msg': '%s: expected %s (decisions %r) but connect() gave %r' % (tag, outcome, log, r[:2])})
    av = s.dev.available
    if av is not (r == ('ok', True)):
        viol.append({'msg': '%s: connect() gave %r but available is %r' % (tag, r[:2], av)})
    if r == ('ok', True):
        if not 0 < s.dev.max_chunk_size <= min(65536, maxdata):
            viol.append({'msg': '%s: device CNXN announced maxdata %d but max_chunk_size is %d' % (tag, maxdata, s.dev.max_chunk_size)})
    states = [(nkeys, i, kv) for i, kv in enumerate(log)]
    return r, log, states


def run_one(params, ch):
    nkeys, cb, maxdata = params['nkeys'], params['cb'], params['maxdata']
    s = Session(ch, {'maxdata': maxdata}, twin=params['twin'])
    try:
        viol = []
        r, log, states = one_connect(s, nkeys, cb, params['pub_bytes'], params['strays'], maxdata, viol, 'connect #1', params.get('kform'), None if params.get('at_none') else AT)
        outcome = [r[:2], tuple(log)]
        if params.get('second'):
            r2, log2, st2 = one_connect(s, nkeys, cb, params['pub_bytes'], False, maxdata, viol, 'connect #2 (after %r)' % (r[:2],), params.get('kform'))
            outcome += [r2[:2], tuple(log2)]
            states += [('second',) + x for x in st2]
            r = r2
        if r == ('ok', True) and params.get('push'):
            # adoption of the CNXN's maxdata, judged by what a following push puts on the wire: never more than maxdata per WRTE, and
            # (for a device that announces >= 64 KiB) more than the 4 KiB a host would use had it ignored the announcement
            ladder = [4096, 65536, 256 * 1024, 1024 * 1024, 4 * 1024 * 1024]
            below = max([x for x in ladder if x < maxdata] or [0])
            psize = min(maxdata, 3 * 1024 * 1024) + 1000 if (maxdata >= 1024 * 1024 and nkeys <= 1) else 200000
            pr = s.op(('push', ('bytes', b'z' * psize), '/g', {'mtime': 3}))
            if pr != ('ok', None):
                viol.append({'msg': 'push after the handshake gave %r' % (pr,)})
            sizes = [len(p.data) for w, p in s.env.events if w == 'H' and p.cmd == b'WRTE']
            if any(z > maxdata for z in sizes):
                viol.append({'msg': 'push after CNXN(maxdata=%d) sent WRTE payloads of up to %d bytes' % (maxdata, max(sizes))})
            floor = below if psize > 200000 else (4096 if maxdata >= 65536 else 0)
            if floor and sizes and max(sizes) <= floor:
                viol.append({'msg': 'push of %d bytes after CNXN(maxdata=%d) never sent more than %d bytes per WRTE -- what a host that had adopted only %d would send: the announced maxdata was not adopted'
                                    % (psize, maxdata, max(sizes), floor)})
        viol += [{'msg': '%s: %s' % i} for i in s.env.issues]
        demanded = any(v != 'cnxn' for k, v in log[:1])
        return {'outcome': tuple(outcome), 'viol': viol, 'states': states, 'trans': len(states),
                'nontrivial': (tuple(sorted((k, str(v)) for k, v in params.items())), tuple(ch.choices)) if demanded else None,
                'sample': {'params': params, 'decisions': log, 'result': r[:2], 'host_auth_packets': len([1 for w, p in s.env.events if w == 'H' and p.cmd == b'AUTH'])}}
    finally:
        s.finish()


def parts(tier):
    twins = ('sync', 'async')
    kmax = 4 if tier == 'quick' else 12
    sc = [{'nkeys': n, 'cb': cb, 'maxdata': md, 'twin': t, 'pub_bytes': pb, 'strays': False, 'push': True}
          for n in range(0, kmax + 1) for cb in (None, 'record', 'raise') for md in (4096, 256 * 1024, 1024 * 1024) for t in twins for pb in (False, True, 'nonascii', 'bytearray', 'empty')
          if (md == 1024 * 1024 or n <= 2) and (not pb or n in (1, 2) or (pb == 'empty' and n == 3 and md == 1024 * 1024))]
    sc += [dict(x, at_none=True) for x in sc if x['maxdata'] == 1024 * 1024 and not x['pub_bytes'] and 1 <= x['nkeys'] <= 2 and x['cb'] != 'raise']     # auth_timeout_s=None
    sc += [dict(x, maxdata=4 * 1024 * 1024) for x in sc if x['maxdata'] == 1024 * 1024 and not x['pub_bytes'] and x['nkeys'] <= 1 and not x.get('at_none')]   # a device announcing more than the host's own 1 MiB
    # the key collection may be omitted, None, or an empty/non-empty list or tuple: "challenged without keys" covers every empty form
    sc += [dict(x, kform=kf) for x in sc if x['maxdata'] == 1024 * 1024 and not x['pub_bytes'] and x['nkeys'] <= 2
           for kf in (('none', 'list', 'tuple') if x['nkeys'] == 0 else ('tuple',))]
    out = [Part('handshake', sc, run_one, {'*': None}, what='all device decision sequences for 0..%d keys (omitted / None / empty and non-empty list and tuple) x callback x maxdata x twins' % kmax, bound='complete for the decision alphabet')]
    sc = [{'nkeys': n, 'cb': 'record', 'maxdata': 1024 * 1024, 'twin': t, 'pub_bytes': False, 'strays': True, 'push': False} for n in ((0, 1, 2) if tier == 'quick' else (0, 1, 2, 3)) for t in twins]
    out.append(Part('strays', sc, run_one, {'*': None, 'stray': 2 if tier == 'quick' else 5}, what='stray packets of a dead stream before any awaited reply',
                    bound='<=%d stray packets in total' % (2 if tier == 'quick' else 5)))
    sc = [{'nkeys': n, 'cb': cb, 'maxdata': 4096, 'twin': t, 'pub_bytes': pb, 'strays': False, 'second': True, 'push': True}
          for pb in (False, 'bytearray') for n in ((0, 1, 2) if tier == 'quick' else (0, 1, 2, 3, 4)) for cb in (None, 'record') for t in twins]
    out.append(Part('reconnect', sc, run_one, {'*': None}, what='a second connect() on the same object under every outcome of the first', bound='keys <= %d, all decision sequences of both' % (2 if tier == 'quick' else 4)))
    return out
