"""C06 -- concurrent streams are isolated: no cross-talk, loss, duplication or deadlock (threads and asyncio tasks)."""
from .. import monitor, oracle, scen, simenv, vloop
from ..chooser import ReplayDivergence
from ..common import HarnessError
from ..harness import Session
from ..runner import Part
from ..sched import SchedLock, Scheduler, current_task

PROPERTY = 'C06'
LEVEL = 'model_checking'
RULE = ('2-3 operations started together on one connected device; sync: every operation in its own OS thread under a controlled scheduler with scheduling points before every lock acquire, after '
        'every release and before every transport call -- all schedules up to the preemption bound; line-level scheduling points inside _AdbIOManager.read/send/_send, every _AdbPacketStore method, '
        '_open, and the filesync send/flush helpers at preemption bound 1 (thorough 2); async: every order in which pending transport I/O may complete (complete, unbounded); in both, which '
        'ready stream\'s packet the device puts on the wire next is a free choice, enumerated completely; oracle: each operation returns exactly its solo result == the device-side per-stream '
        'record, no payload elsewhere, host byte stream parses (no interleaved header/payload), stream monitor rules, every store access under the store lock and every transport call under the '
        'transport lock of the calling thread, no deadlock / livelock / timeout. States = (per-thread position, lock owners) at scheduling decisions; non-trivial = at least one preemption or '
        'wire-order / I/O-order deviation; distinct = distinct (scenario, choice list)')
ASSUMPTIONS = ['adbsim device model answers instantly, so any timeout is a lost packet', 'sequential consistency at line granularity under the GIL (CPython); free-threaded builds are out of scope',
               'finding K1 (CLSE of an open stream dropped by the store) is repaired in /repo; its signature code remains but matches nothing while the entry is "fixed"']
TIMEOUTS = ('AdbTimeoutError', 'TcpTimeoutException')

SCENARIOS = {
    'shell2|shell1': [('shell', 'two', {'decode': False}), ('shell', 'one', {'decode': False})],
    'shell|shell-empty': [('shell', 'two', {'decode': False}), ('shell', 'none', {'decode': False})],
    'shell|stat': [('shell', 'two', {'decode': False}), ('stat', '/f')],
    'shell|pull': [('shell', 'two', {'decode': False}), ('pull', '/f', 'bytesio')],
    'shell|push': [('shell', 'two', {'decode': False}), ('push', ('bytes', scen.push_data(5000)), '/g', {'mtime': 7})],
    'pull|push': [('pull', '/f', 'bytesio'), ('push', ('bytes', scen.push_data(5000)), '/g', {'mtime': 7})],
    'push|push': [('push', ('bytes', scen.push_data(3000)), '/g', {'mtime': 7}), ('push', ('bytes', scen.push_data(2500)[::-1]), '/h', {'mtime': 8})],
    'list|stat': [('list', '/d'), ('stat', '/f')],
    'stream|shell': [('streaming_shell', 'two', {'decode': False}), ('shell', 'one', {'decode': False})],
    'sdec|sdec': [('streaming_shell', 'two', {'decode': True}), ('streaming_shell', 'jp', {'decode': True})],      # decoded text: characters split across WRTEs
    'shell|shell|shell': [('shell', 'two', {'decode': False}), ('shell', 'one', {'decode': False}), ('exec_out', 'two', {'decode': False})],
    'shell|stat|push': [('shell', 'two', {'decode': False}), ('stat', '/f'), ('push', ('bytes', scen.push_data(3000)), '/g', {'mtime': 7})],
}
OUT = {b'shell:two': [b'two-1\xc3', b'\xa9two-2'], b'shell:one': [b'one-1'], b'shell:none': [], b'exec:two': [b'x-1', b'x-2'], b'shell:jp': [b'\xe3\x81', b'\x82!', b'xyz']}
CFG = scen.ops_cfg('two', 4096)
CFG['shell'] = OUT
CFG_MIRROR = dict(CFG, remote_ids=scen.REMOTE_FAMILIES['mirror'])


_SOLO = {}


def expected(op):
    n = op[0]
    if isinstance(op[-1], dict) and op[-1].get('decode'):
        # decoded output: the reference is what the same call returns when it runs alone on the same code
        key = repr(op)
        if key not in _SOLO:
            from ..chooser import FixedChooser
            s = Session(FixedChooser(), CFG, twin='sync')
            try:
                s.op(('connect',))
                _SOLO[key] = s.op(op)
            finally:
                s.finish()
        return _SOLO[key]
    if n in ('shell', 'exec_out'):
        return ('ok', b''.join(OUT[{'shell': b'shell:', 'exec_out': b'exec:'}[n] + op[1].encode()]))
    if n == 'streaming_shell':
        return ('ok', list(OUT[b'shell:' + op[1].encode()]))
    if n == 'stat':
        return ('ok', (0o100644, len(scen.FILE_F), 0x5F5E1000))
    if n == 'list':
        return ('ok', [(bytearray(a), b, c, d) for (a, b, c, d) in scen.DIR_D])
    if n == 'pull':
        return ('ok', scen.FILE_F)
    if n == 'push':
        return ('ok', None)
    raise HarnessError(n)


class StoreProbe(object):
    """Observes the packet store from outside: lock discipline and CLSE drops (for known finding K1)."""

    def __init__(self, s, sched):
        import adb_shell.hidden_helpers as hh
        self.cls = hh._AdbPacketStore
        self.s = s
        self.sched = sched
        self.io = s.dev._io_manager
        from ..harness import find_locks
        self.io_locks = list(find_locks(self.io).values())
        self.transport_lock = getattr(self.io, '_transport_lock', None)
        self.dropped = []          # (arg0, arg1) of CLSE packets that put() did not keep because the pair had no entry (K1)
        self.dropped_other = []    # CLSE packets lost although the pair had an entry: never forgiven
        self.lock_issues = []
        self.parked = 0            # packets that a reader put into the store for another stream (evidence that streams collided)
        self.orig = {}
        probe = self
        for name in ('find', 'find_allow_zeros', 'get', 'put', 'clear', 'clear_all'):
            orig = getattr(self.cls, name)
            self.orig[name] = orig

            def wrap(store, *a, _orig=orig, _name=name):
                if store is probe.io._packet_store and probe.sched is not None and current_task() is not None:
                    # by name when the documented attribute exists; after a rename: any lock of the I/O manager other than the one held
                    # around transport calls must be held by the caller
                    lk = getattr(probe.io, '_store_lock', None)
                    if lk is not None:
                        held = getattr(lk, 'owner', None) is current_task()
                    else:
                        mine = [l for l in probe.io_locks if getattr(l, 'owner', None) is current_task()]
                        held = any(l is not probe.transport_lock for l in mine) if probe.transport_lock is not None else bool(mine)
                    if not held:
                        probe.lock_issues.append('_AdbPacketStore.%s called by %s without holding the store lock' % (_name, current_task().name))
                had_entry = None
                if _name == 'put' and a[2] == b'CLSE' and store is probe.io._packet_store:
                    try:
                        had_entry = a[0] in store._dict.get(a[1], {})
                    except AttributeError:
                        had_entry = None
                r = _orig(store, *a)
                if _name == 'put' and store is probe.io._packet_store:
                    probe.parked += 1
                if _name == 'put' and a[2] == b'CLSE' and store is probe.io._packet_store:
                    try:
                        q = store._dict.get(a[1], {}).get(a[0])
                        kept = q is not None and any(c == b'CLSE' for c, _d in list(q._queue))
                    except AttributeError:
                        kept = True
                    if not kept:
                        # K1 is exactly: the pair had NO entry in the store (the documented drop of put()).  A CLSE that
                        # is lost although the pair has an entry is a different defect and is never forgiven.
                        (probe.dropped if had_entry is False else probe.dropped_other).append((a[0], a[1]))
                return r
            setattr(self.cls, name, wrap)

    def restore(self):
        for name, orig in self.orig.items():
            setattr(self.cls, name, orig)


def trace_codes(level):
    import adb_shell.adb_device as ad
    import adb_shell.hidden_helpers as hh
    codes = []
    if level >= 1:
        for f in (ad._AdbIOManager.read, ad._AdbIOManager.send, ad._AdbIOManager._send, ad._AdbIOManager._read_packet_from_device, ad.AdbDevice._open):
            codes.append(f.__code__)
        for name in ('find', 'find_allow_zeros', 'get', 'put', 'clear', '__contains__'):
            codes.append(getattr(hh._AdbPacketStore, name).__code__)
    if level >= 2:
        for f in (ad.AdbDevice._filesync_send, ad.AdbDevice._filesync_flush, ad.AdbDevice._push, ad.AdbDevice._filesync_read_buffered, ad.AdbDevice._filesync_read, ad.AdbDevice._read_until):
            codes.append(f.__code__)
        if hasattr(ad._AdbIOManager, '_write_bytes_to_device'):
            codes.append(ad._AdbIOManager._write_bytes_to_device.__code__)
    return codes


def judge(s, ops, results, verdict, dropped, lock_issues, viol):
    env = s.env
    # which operation owns which local id: from the OPEN destinations in the host log
    owners = {l: i for l, i in env.open_by.items() if i is not None}
    k1_ops = {owners[l] for (_r, l) in dropped if l in owners}
    failing = []
    for i, (op, r) in enumerate(zip(ops, results)):
        want = expected(op)
        if r != want:
            sig = None
            if i in k1_ops and isinstance(r, tuple) and r[0] == 'exc' and r[1] in TIMEOUTS:
                sig = 'K1'
            failing.append(i)
            viol.append({'msg': 'operation %d %s gave %r, its solo result is %r' % (i, op[0], r if len(repr(r)) < 160 else repr(r)[:160], want if len(repr(want)) < 120 else repr(want)[:120]), 'sig': sig})
    if verdict:
        viol.append({'msg': 'scheduler verdict: %s' % verdict})
    for pair in getattr(env, 'clse_lost_with_entry', ()):
        viol.append({'msg': 'the packet store lost the CLSE of stream (remote %d, local %d) although it holds an entry for that stream' % pair})
    for m in lock_issues[:3]:
        viol.append({'msg': 'lock discipline: %s' % m})
    for code, msg in env.issues:
        if code == 'okay' and k1_ops:
            continue
        viol.append({'msg': '%s: %s' % (code, msg)})
    mon, _ = monitor.check(env.events, completed=False)
    viol += [{'msg': 'stream monitor %s: %s' % m} for m in mon]
    pushes = [op for op in ops if op[0] == 'push']
    if pushes and all(results[i] == ('ok', None) for i, op in enumerate(ops) if op[0] == 'push'):
        got = sorted((x[0], x[3]) for x in env.fs.sends)
        want = sorted((op[2].encode(), op[1][1]) for op in pushes)
        if got != want:
            viol.append({'msg': 'device filesystem received %r, expected %r' % ([(p, len(d)) for p, d in got], [(p, len(d)) for p, d in want])})
    return k1_ops


def dest_of(op):
    n = op[0]
    if n in ('shell', 'streaming_shell'):
        return b'shell:' + op[1].encode()
    if n == 'exec_out':
        return b'exec:' + op[1].encode()
    return b'sync:'


_WARM = set()


def run_threads(params, ch):
    ops = SCENARIOS[params['scenario']]
    for op in ops:
        expected(op)
    key = (params['scenario'], params.get('trace', 0))
    if key[1] and key not in _WARM:
        # line instrumentation is installed lazily per code object and process: one throw-away execution first
        _WARM.add(key)
        from ..chooser import FixedChooser
        run_threads(params, FixedChooser())
    s = Session(ch, CFG_MIRROR if params.get('mirror') else CFG, twin='sync', lock_factory=SchedLock, max_calls=5000, wcap=bool(params.get('wcap')))
    probe = None
    try:
        r0 = s.op(('connect',))
        if r0 != ('ok', True):
            raise HarnessError('connect failed: %r' % (r0,))
        if 'local_id' in params:
            s.dev._local_id = params['local_id']
        sc = Scheduler(ch, max_steps=params.get('max_steps', 6000), trace_codes=trace_codes(params.get('trace', 0)))
        io = s.dev._io_manager
        from ..harness import find_locks
        sc.locks = list(find_locks(s.dev, io).values())
        probe = StoreProbe(s, sc)
        s.env.sched = sc
        s.env.who = lambda: getattr(current_task(), 'tid', None)
        _orig_pt = sc.point

        def io_point(why, line=None):
            if why == 'io' and current_task() is not None:
                tl = getattr(io, '_transport_lock', None)
                held = (getattr(tl, 'owner', None) is current_task()) if tl is not None else any(getattr(l, 'owner', None) is current_task() for l in probe.io_locks)
                if held and tl is None and probe.transport_lock is None:
                    probe.transport_lock = next(l for l in probe.io_locks if getattr(l, 'owner', None) is current_task())   # learnt: the lock held around I/O
                if not held:
                    probe.lock_issues.append('transport call by %s without holding the transport lock' % current_task().name)
            return _orig_pt(why, line)
        sc.point = io_point
        for op in ops:
            sc.spawn(lambda op=op: s.op(op), name=op[0])
        results = sc.run()
        s.env.sched = None
        viol = []
        s.env.clse_lost_with_entry = list(probe.dropped_other)
        k1 = judge(s, ops, results, sc.verdict, probe.dropped, probe.lock_issues, viol)
        if sc.verdict and sc.verdict.startswith('error'):
            raise HarnessError(sc.verdict)
        dev = [c for c in ch.choices if c]
        return {'outcome': (tuple(r if not (isinstance(r, tuple) and r[0] == 'ok') else 'ok' for r in results), bool(k1), sc.verdict, min(probe.parked, 4)), 'viol': viol,
                'states': sc.states, 'trans': sc.steps, 'nontrivial': (params['scenario'], params.get('trace', 0), params.get('mirror'), tuple(ch.choices)) if dev else None,
                'extra': {'preemptive_switches': sc.preemptions, 'k1_trigger_executions': 1 if probe.dropped else 0, 'packets_parked_for_another_stream': probe.parked},
                'sample': {'scenario': params['scenario'], 'trace_level': params.get('trace', 0), 'scheduling_points': sc.steps, 'preemptions': sc.preemptions, 'thread_switches': sc.switches,
                           'results': [r[0] if isinstance(r, tuple) else r for r in results], 'clse_dropped_for': probe.dropped}}
    finally:
        if probe is not None:
            probe.restore()
        s.env.sched = None
        s.finish()


async def async_op(s, op):
    d = s.dev
    n = op[0]
    kw = dict(op[-1]) if isinstance(op[-1], dict) else {}
    try:
        if n in ('shell', 'exec_out'):
            return ('ok', await getattr(d, n)(op[1], **kw))
        if n == 'streaming_shell':
            return ('ok', [x async for x in d.streaming_shell(op[1], **kw)])
        if n == 'stat':
            return ('ok', tuple(await d.stat(op[1])))
        if n == 'list':
            return ('ok', [tuple(x) for x in await d.list(op[1])])
        if n == 'pull':
            import io
            b = io.BytesIO()
            await d.pull(op[1], b)
            return ('ok', b.getvalue())
        if n == 'push':
            import io
            await d.push(io.BytesIO(op[1][1]), op[2], **kw)
            return ('ok', None)
        raise HarnessError(n)
    except (ReplayDivergence, HarnessError):
        raise
    except simenv.Hang as e:
        return ('hang', str(e))
    except simenv.Watchdog as e:
        return ('watchdog', str(e))
    except Exception as e:  # pylint: disable=broad-except
        return ('exc', type(e).__name__, str(e)[:200])


def run_tasks(params, ch):
    ops = SCENARIOS[params['scenario']]
    for op in ops:
        expected(op)          # solo references are computed before this execution's session exists (they use a session of their own)
    s = Session(ch, dict(CFG_MIRROR if params.get('mirror') else CFG, lazy_write=bool(params.get('lazy'))), twin='async', explore_io=False, max_calls=5000)
    probe = None
    try:
        r0 = s.op(('connect',))
        if r0 != ('ok', True):
            raise HarnessError('connect failed: %r' % (r0,))
        probe = StoreProbe(s, None)
        loop = s.loop
        loop._explore_io = True
        s.env.sched = loop
        import asyncio
        s.env.who = lambda: getattr(asyncio.current_task(), '_verif_idx', None)
        states = []

        def hook(lp):
            states.append((tuple(sorted(str(l) for _f, l in lp._pending_io)), len(lp._ready)))
        loop.state_hook = hook
        verdict = None
        try:
            async def tagged(i, op):
                asyncio.current_task()._verif_idx = i
                return await async_op(s, op)
            tasks = loop.drive(*[tagged(i, op) for i, op in enumerate(ops)])
            results = [t.result() for t in tasks]
        except vloop.Deadlock as e:
            verdict = 'deadlock: %s' % e
            results = [('deadlock',)] * len(ops)
        loop._explore_io = False
        s.env.sched = None
        viol = []
        s.env.clse_lost_with_entry = list(probe.dropped_other)
        k1 = judge(s, ops, results, verdict, probe.dropped, [], viol)
        dev = [c for c in ch.choices if c]
        return {'outcome': (tuple(r if r[0] != 'ok' else 'ok' for r in results), bool(k1), verdict, min(probe.parked, 4)), 'viol': viol, 'states': states, 'trans': loop.steps,
                'nontrivial': (params['scenario'], 'async', params.get('mirror'), tuple(ch.choices)) if dev else None, 'extra': {'k1_trigger_executions': 1 if probe.dropped else 0},
                'sample': {'scenario': params['scenario'], 'twin': 'async', 'loop_steps': loop.steps, 'io_completions_chosen': loop.io_choices, 'results': [r[0] for r in results],
                           'clse_dropped_for': probe.dropped}}
    finally:
        if probe is not None:
            probe.restore()
        s.env.sched = None
        s.finish()


def parts(tier):
    out = _parts(tier)
    if tier == 'thorough':
        for p in out:
            p.deadline_s = 2400
    return out


def _parts(tier):
    two = [k for k, v in SCENARIOS.items() if len(v) == 2]
    three = [k for k, v in SCENARIOS.items() if len(v) == 3]
    pb = 2 if tier == 'quick' else 3
    deep = ('shell2|shell1', 'shell|push') if tier == 'quick' else tuple(two)
    out = [Part('threads-2', [{'scenario': k} for k in deep], run_threads, {'sched': pb, 'dev-order': None, 'lock-timeout': 1}, split=2,
                what='2 threads, scheduling points at locks and transport calls, all device wire orders', bound='preemptions <= %d' % pb)]
    rest = [k for k in two if k not in deep]
    if rest:
        out.append(Part('threads-2-more', [{'scenario': k} for k in rest], run_threads, {'sched': pb - 1, 'dev-order': None}, split=2,
                        what='2 threads, remaining scenarios', bound='preemptions <= %d' % (pb - 1)))
    out.append(Part('threads-3', [{'scenario': k} for k in three] + [{'scenario': k, 'mirror': True} for k in three], run_threads, {'sched': pb - 1, 'dev-order': None}, split=2,
                    what='3 threads, scheduling points at locks and transport calls', bound='preemptions <= %d' % (pb - 1)))
    if tier == 'quick':
        lines = [{'scenario': 'shell|stat', 'trace': 1}, {'scenario': 'stream|shell', 'trace': 1}, {'scenario': 'push|push', 'trace': 2}]
        out.append(Part('threads-lines', lines, run_threads, {'sched': 1, 'dev-order': 0}, split=2,
                        what='line-level scheduling points inside the I/O manager, the packet store, _open and the filesync helpers', bound='preemptions <= 1, default wire order'))
    else:
        lines = [{'scenario': k, 'trace': 1} for k in ('shell2|shell1', 'shell|stat', 'shell|pull', 'stream|shell', 'list|stat')] + [{'scenario': k, 'trace': 2} for k in ('push|push', 'shell|push', 'pull|push')]
        out.append(Part('threads-lines', lines, run_threads, {'sched': 1, 'dev-order': 1}, split=2,
                        what='line-level scheduling points inside the I/O manager, the packet store, _open and the filesync helpers', bound='preemptions <= 1, <=1 wire-order deviation'))
        out.append(Part('threads-lines-pb2', [{'scenario': 'shell|stat', 'trace': 1}], run_threads, {'sched': 2, 'dev-order': 0}, split=3,
                        what='line-level scheduling points, two preemptions', bound='preemptions <= 2, one scenario'))
    out.append(Part('threads-short-writes', [{'scenario': k, 'wcap': True} for k in ('shell2|shell1', 'shell|push')], run_threads, {'sched': 1, 'wcap': 1, 'dev-order': 0, 'lock-timeout': 1}, split=2,
                    what='2 threads over a transport that writes short: one preemption x one short write', bound='preemptions <= 1, short writes <= 1'))
    out.append(Part('tasks', [{'scenario': k} for k in SCENARIOS] + [{'scenario': k, 'mirror': True} for k in SCENARIOS] + [{'scenario': k, 'lazy': True} for k in SCENARIOS], run_tasks, {'io-order': None, 'dev-order': None}, split=2,  # lazy: a transport that keeps the written buffer by reference until the next call (asyncio StreamWriter)
                    what='asyncio tasks: every completion order of pending transport I/O x every device wire order', bound='complete (no bound)'))
    return out
