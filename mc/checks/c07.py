"""C07 -- push delivers the exact file bytes, within protocol size limits."""
from .. import oracle
from ..common import rng
from ..harness import Session
from ..runner import Part

PROPERTY = 'C07'
LEVEL = 'exploration'
RULE = ('maxdata M in {4096, 8192} x EVERY file size 0..3*chunk+64 (chunk = min(64 KiB, M/2)), M in {64 KiB, 256 KiB, 1 MiB} x every size within +-48 of each multiple of the '
        'chunk and of each flush threshold; device paths with non-ASCII characters, spaces and commas; a second connect() to a device announcing another maxdata followed by another push; device path lengths {1, 64, 1018 (1024 with the mode suffix, the adbd limit)}; st_mode {default, 0o100644, 0}; mtime {0, 1, 2^32-1}; sources {BytesIO, file path, directory of '
        '0/1/3 files pushed from another / the parent / the same working directory / a working directory holding sub-directories named like the files}; callbacks {none, counting, raising, re-entrant (issues a stat on the same device while the push is running)}; a BytesIO read position {0, 1, mid, chunk, end} and a file appended to when the first WRTE leaves, each pushed with no/counting/raising callback (same bytes received); the device withholding the final sync OKAY; both '
        'twins; oracle: the model filesystem holds exactly the source bytes under <device_path>[/<name>] with the mode and mtime sent (virtual now when 0), SEND argument '
        '<path>,<decimal mode>, every DATA <= 64 KiB, every WRTE payload <= M, normal return only after the sync OKAY, callback counts sum to '
        'the size, host packet log with callback == without; non-trivial = file non-empty; distinct = distinct parameter tuple')
ASSUMPTIONS = ['adbsim sync service follows SYNC.TXT / file_sync_service.cpp', 'file contents are seeded pseudo-random bytes']
DEFAULT_MODE = 0o100770


def data_of(size, salt=0):
    return rng('c07', size, salt).randbytes(size) if size else b''


def run_push(params, ch):
    M, size, twin = params['M'], params['size'], params['twin']
    plen = params.get('plen', 6)
    dpath = params.get('dpath') or '/' + 'p' * (plen - 1)
    kw = {}
    if 'mode' in params:
        kw['st_mode'] = params['mode']
    if 'mtime' in params:
        kw['mtime'] = params['mtime']
    src_kind = params.get('src', 'bytes')
    cb = params.get('cb')
    cfg = {'maxdata': M, 'fs': {'files': {b'/f': {'data': b'0123456789', 'mode': 0o100644, 'mtime': 3}}}}
    if params.get('withhold'):
        cfg['withhold_status'] = True
        kw['read_timeout_s'] = 1.0
    data = data_of(size)
    if src_kind == 'dir':
        names = params['names']
        files = {n: data_of(size + i, i) for i, n in enumerate(names)}
        src = ('dir', files, params.get('cwd', 'elsewhere'))
    else:
        files = None
        src = (src_kind, data)

    def once(cbk):
        s = Session(ch, cfg, twin=twin)
        try:
            s.op(('connect',))
            k2 = dict(kw)
            if cbk:
                k2['cb'] = cbk
            now = int(s.env.clock.now)
            r = s.op(('push', src, dpath, k2))
            return s, r, now
        except BaseException:
            s.finish()
            raise
    s, r, now = once(cb)
    try:
        env = s.env
        sig = None
        if src_kind == 'dir' and params.get('cwd', 'elsewhere') != 'inside' and files:
            sig = 'F2'
        if src_kind == 'bytes' and cb:
            sig = 'F4'
        viol = []
        for v in oracle.base_viol(s, completed=(r[0] == 'ok')):
            viol.append(v)
        want_mode = int(kw.get('st_mode', DEFAULT_MODE))
        want_mtime = kw.get('mtime', 0) or None
        if params.get('withhold'):
            if r[0] == 'ok':
                viol.append({'msg': 'push returned normally although the device never sent the sync OKAY'})
        elif r[0] != 'ok':
            viol.append({'msg': 'push(%s, size %d, M %d, cb %s) ended with %r' % (src_kind, size, M, cb, r), 'sig': sig})
        else:
            sends = env.fs.sends
            expect = [(dpath.encode(), data)] if files is None else sorted((('%s/%s' % (dpath, n)).encode(), d) for n, d in files.items())
            got = sorted((x[0], x[3]) for x in sends)
            if got != expect:
                viol.append({'msg': 'device filesystem received %r, expected %r' % ([(p, len(d)) for p, d in got], [(p, len(d)) for p, d in expect]), 'sig': sig})
            for x in sends:
                if x[1] != want_mode:
                    viol.append({'msg': 'SEND carried mode %r, push was given st_mode %r' % (x[1], want_mode)})
                if want_mtime is not None and x[2] != want_mtime:
                    viol.append({'msg': 'DONE carried mtime %r, push was given %r' % (x[2], want_mtime)})
                if want_mtime is None and not now <= x[2] <= now + 5:
                    viol.append({'msg': 'DONE carried mtime %r with mtime=0, current time is %r' % (x[2], now)})
                if any(c > 65536 or c == 0 for c in x[4]):
                    viol.append({'msg': 'DATA record sizes %r (0 or > 64 KiB)' % (sorted(set(x[4]))[-3:],)})
            if cb:
                tot = {}
                for (pth, n, total) in s.cb_log:
                    tot[pth] = tot.get(pth, 0) + n
                exp_tot = {p.decode(): len(d) for p, d in expect if len(d)}
                if tot != exp_tot:
                    viol.append({'msg': 'progress callback byte counts %r, file sizes %r' % (tot, exp_tot)})
        big = [len(p.data) for w, p in env.events if w == 'H' and p.cmd == b'WRTE' and len(p.data) > M]
        if big:
            viol.append({'msg': 'WRTE payload(s) of %r bytes exceed maxdata %d' % (big[:3], M)})
        hlog = [(p.cmd, p.a0, p.a1, len(p.data), p.data[:64]) for w, p in env.events if w == 'H']
        if cb == 'reenter' and r[0] == 'ok':
            if any(x != (0o100644, 10, 3) for x in s.nested) or len(s.nested) != len(s.cb_log):
                viol.append({'msg': 'stat() issued from the progress callback returned %r' % (s.nested[:2],)})
        if cb and cb != 'reenter' and r[0] == 'ok' and not params.get('withhold'):
            s2, r2, _ = once(None)
            try:
                h2 = [(p.cmd, p.a0, p.a1, len(p.data), p.data[:64]) for w, p in s2.env.events if w == 'H']
                if h2 != hlog or r2 != r:
                    viol.append({'msg': 'host packets with a %s callback differ from the run without callback' % cb})
            finally:
                s2.finish()
        wr = [len(p.data) for w, p in env.events if w == 'H' and p.cmd == b'WRTE']
        return {'outcome': (r[:2], tuple(wr)[:8], len(env.fs.sends)), 'viol': viol,
                'nontrivial': tuple(sorted((k, str(v)) for k, v in params.items())) if size or files else None,
                'sample': dict({k: v for k, v in params.items()}, wrte_sizes=wr[:6], result=r[:2]), 'trans': len(env.events)}
    finally:
        s.finish()


def run_odd(params, ch):
    """Sources whose size is not what a stat/getbuffer of the whole object says: a BytesIO the caller has partly read, a file that grows
    during the push.  Oracle: what the device receives is the same with no callback, a counting callback and a raising callback; a
    partly-read stream delivers (at least with no callback) exactly its unread remainder; a growing file delivers its old content
    followed by nothing or by the appended bytes."""
    M, twin, kind = params['M'], params['twin'], params['kind']
    c = chunk_of(M)
    size = params['size']
    data = data_of(size, 11)
    if kind == 'bytes-at':
        pos = {'0': 0, '1': 1, 'mid': size // 2, 'end': size, 'chunk': min(c, size)}[params['pos']]
        src = ('bytes-at', data, pos)
        allowed = [data[pos:]]
    else:
        extra = data_of(params['extra'], 12)
        src = ('file-grow', data, extra)
        allowed = [data, data + extra]
    got = {}
    viol = []
    res = {}
    trans = 0
    for cb in (None, 'count', 'raise'):
        s = Session(ch, {'maxdata': M}, twin=twin)
        try:
            s.op(('connect',))
            kw = {'mtime': 5}
            if cb:
                kw['cb'] = cb
            r = s.op(('push', src, '/odd', kw))
            res[cb] = r[:2]
            got[cb] = [(x[0], x[3]) for x in s.env.fs.sends]
            trans += len(s.env.events)
            for v in oracle.base_viol(s, completed=(r[0] == 'ok')):
                viol.append(v)
            if r[0] != 'ok':
                viol.append({'msg': 'push of %s with callback %s ended with %r' % (kind, cb, r)})
        finally:
            s.finish()
    base = got[None]
    if len(base) != 1 or base[0][0] != b'/odd' or base[0][1] not in allowed:
        viol.append({'msg': 'push of %s (%r) without callback delivered %r, expected one file of %r bytes' % (kind, params, [(p, len(d)) for p, d in base], [len(a) for a in allowed])})
    for cb in ('count', 'raise'):
        if got[cb] != base:
            viol.append({'msg': 'push of %s (%r): with a %s callback the device received %r, without callback %r' % (
                kind, {k: v for k, v in params.items() if k != 'twin'}, cb, [(p, len(d)) for p, d in got[cb]], [(p, len(d)) for p, d in base])})
    return {'outcome': (tuple(sorted((str(k), v) for k, v in res.items())), tuple(len(d) for _p, d in base)), 'viol': viol,
            'nontrivial': tuple(sorted((k, str(v)) for k, v in params.items())), 'sample': dict(params, received=[len(d) for _p, d in base]), 'trans': trans}


def run_odd_dir(params, ch):
    """(a) a directory that contains a sub-directory between regular files: push is not recursive -- it may refuse (raise), but whatever
    reaches the device is filed under its own name with its own bytes, and a normal return means every regular file arrived;
    (b) a named pipe fed in pieces (short reads before end-of-file): every byte arrives."""
    M, twin = params['M'], params['twin']
    s = Session(ch, {'maxdata': M}, twin=twin)
    try:
        s.op(('connect',))
        viol = []
        kw = {'mtime': 5}
        if params.get('cb'):
            kw['cb'] = params['cb']
        if params['kind'] == 'fifo':
            pieces = [data_of(z, 20 + i) for i, z in enumerate(params['pieces'])]
            r = s.op(('push', ('fifo', pieces, 0.05), '/pipe', kw))
            got = [(x[0], x[3]) for x in s.env.fs.sends]
            if r != ('ok', None) or got != [(b'/pipe', b''.join(pieces))]:
                viol.append({'msg': 'push of a named pipe fed in pieces of %r bytes gave %r; the device received %r' % (params['pieces'], r[:2], [(p, len(d)) for p, d in got])})
        else:
            files = {}
            for i, nm in enumerate(params['names']):
                files[nm] = None if nm.endswith('.d') else data_of(params['size'] + i, 30 + i)
            r = s.op(('push', ('dir', files, 'elsewhere'), '/dest', kw))
            regular = {('/dest/%s' % n).encode(): d for n, d in files.items() if d is not None}
            for x in s.env.fs.sends:
                if x[0] not in regular:
                    viol.append({'msg': 'directory push (entries %r) created %r on the device, which is not a regular file of the directory' % (params['names'], x[0])})
                elif x[3] != regular[x[0]]:
                    viol.append({'msg': 'directory push (entries %r): %r received %d bytes that are not its content' % (params['names'], x[0], len(x[3]))})
            if r[0] == 'ok' and sorted(x[0] for x in s.env.fs.sends) != sorted(regular):
                viol.append({'msg': 'directory push (entries %r) returned normally but the device received only %r' % (params['names'], sorted(x[0] for x in s.env.fs.sends))})
            if r[0] not in ('ok', 'exc'):
                viol.append({'msg': 'directory push ended with %r' % (r,)})
        viol += oracle.base_viol(s, completed=(r[0] == 'ok'))
        return {'outcome': (r[:2], len(s.env.fs.sends)), 'viol': viol, 'nontrivial': tuple(sorted((k, str(v)) for k, v in params.items())), 'sample': dict(params, result=r[:2]), 'trans': len(s.env.events)}
    finally:
        s.finish()


def run_reconnect(params, ch):
    M1, M2, size, twin = params['M1'], params['M2'], params['size'], params['twin']
    data = data_of(size)
    s = Session(ch, {'maxdata': M1}, twin=twin)
    try:
        viol = []
        s.op(('connect',))
        r1 = s.op(('push', ('bytes', data), '/first', {'mtime': 3}))
        if params['close']:
            s.op(('close',))
        n0 = len(s.env.events)
        rc = s.op(('connect', {'_sim': {'maxdata': M2}}))
        r2 = s.op(('push', ('bytes', data[::-1]), '/second', {'mtime': 4}))
        if (r1, rc, r2) != (('ok', None), ('ok', True), ('ok', None)):
            viol.append({'msg': 'push / connect / push gave %r' % ((r1[:2], rc[:2], r2[:2]),)})
        sizes = [len(p.data) for w, p in s.env.events[n0:] if w == 'H' and p.cmd == b'WRTE']
        if any(z > M2 for z in sizes):
            viol.append({'msg': 'after reconnecting to a device with maxdata %d (was %d) the host sent WRTE payloads of %r bytes' % (M2, M1, sorted(set(z for z in sizes if z > M2)))})
        sends = [(x[0], x[3]) for x in s.env.fs.sends]
        if sends != [(b'/first', data), (b'/second', data[::-1])] and not viol:
            viol.append({'msg': 'device filesystem received %r' % ([(p, len(d)) for p, d in sends],)})
        for x in s.env.fs.sends:
            if any(c > 65536 for c in x[4]):
                viol.append({'msg': 'DATA record of %d bytes exceeds 64 KiB' % max(x[4])})
        viol += [{'msg': '%s: %s' % i} for i in s.env.issues]
        return {'outcome': (r1[:2], r2[:2], tuple(sizes[:4])), 'viol': viol, 'nontrivial': tuple(sorted((k, str(v)) for k, v in params.items())),
                'sample': dict(params, wrte_sizes_after_reconnect=sizes[:5]), 'trans': len(s.env.events)}
    finally:
        s.finish()


def chunk_of(M):
    return min(65536, M // 2)


def sizes_for(M, tier):
    c = chunk_of(M)
    if M <= 8192:
        return list(range(0, 3 * c + 65))
    out = set()
    for k in range(0, 5):
        for d in range(-48, 49):
            out.add(k * c + d)
    for k in (1, 2):
        for d in range(-64, 17):
            out.add(k * M + d)
    out.add(int(3.5 * c))
    return sorted(x for x in out if x >= 0 and (x <= 2 * 1024 * 1024 + 100 or tier == 'thorough'))


def parts(tier):
    twins = ('sync', 'async')
    out = []
    sc = [{'M': M, 'size': z, 'twin': t} for M in (4096, 8192) for z in sizes_for(M, tier) for t in twins]
    out.append(Part('all-sizes-small-maxdata', sc, run_push, what='every file size 0..3*chunk+64 for maxdata 4096 and 8192', bound='%d pushes' % len(sc)))
    Ms = (65536, 256 * 1024, 1024 * 1024)
    sc = [{'M': M, 'size': z, 'twin': t} for M in Ms for z in sizes_for(M, tier) for t in (twins if tier == 'thorough' else ('sync',))
          if tier == 'thorough' or z <= 300000 or z % 4 == 0]
    out.append(Part('boundary-sizes-large-maxdata', sc, run_push, what='sizes within +-48 of chunk multiples and flush thresholds', bound='%d pushes' % len(sc),
                    exhaustive=(tier == 'thorough')))
    sc = []
    for M in (4096, 65536):
        c = chunk_of(M)
        for plen in (1, 64, 1018):
            for z in [0, 1, c - 1, c, c + 1] + list(range(max(0, M - plen - 40), M - plen + 8)):
                for t in twins:
                    sc.append({'M': M, 'size': z, 'twin': t, 'plen': plen})
    out.append(Part('path-lengths', sc, run_push, what='device path lengths 1/64/1018 x sizes around the first flush threshold', bound='%d pushes' % len(sc)))
    sc = []
    for t in twins:
        for mode in (None, 0o100644, 0):
            for mt in (None, 0, 1, 2**32 - 1):
                for src in ('bytes', 'file'):
                    p = {'M': 4096, 'size': 5000, 'twin': t, 'src': src}
                    if mode is not None:
                        p['mode'] = mode
                    if mt is not None:
                        p['mtime'] = mt
                    sc.append(p)
        for src in ('bytes', 'file'):
            for cb in ('count', 'raise', 'reenter'):
                for z in (0, 1, 2048, 5000, 70000):
                    sc.append({'M': 4096 if z < 70000 else 1024 * 1024, 'size': z, 'twin': t, 'src': src, 'cb': cb})
            for z in (0, 5000):
                sc.append({'M': 4096, 'size': z, 'twin': t, 'src': src, 'withhold': True})
        for names in ([], ['one'], ['a', 'b.txt', 'c c']):
            for cwd in ('elsewhere', 'parent', 'inside', 'decoy'):
                for cb in (None, 'count'):
                    sc.append({'M': 4096, 'size': 3000, 'twin': t, 'src': 'dir', 'names': names, 'cwd': cwd, 'cb': cb})
    out.append(Part('modes-sources-callbacks', sc, run_push, what='st_mode x mtime x source kind x callback x withheld OKAY x directory pushes from three working directories',
                    bound='%d pushes' % len(sc)))
    sc = [{'M': M, 'size': z, 'twin': t, 'src': src, 'dpath': dp} for M in (4096, 65536) for z in (0, 1, 5000) for t in twins for src in ('bytes', 'file')
          for dp in ('/sdcard/caf\u00e9.bin', '/\u3042/\u3044', '/data/\U0001F600', '/a b/c,d')]
    sc += [{'M': 4096, 'size': 3000, 'twin': t, 'src': 'dir', 'names': ['\u00fcber.txt', 'x'], 'cwd': 'elsewhere', 'dpath': '/sd/\u00e9'} for t in twins]
    sc += [{'M': 4096, 'size': 300, 'twin': t, 'src': 'dir', 'names': ['a', 'b'], 'cwd': 'elsewhere', 'dpath': dp} for t in twins for dp in ('/sdcard/Download/', '/', 'rel/dir')]      # '<device_path>/<name>', literally
    out.append(Part('non-ascii-paths', sc, run_push, what='device paths with non-ASCII characters, spaces and commas', bound='%d pushes' % len(sc)))
    sc = []
    for t in twins:
        for M in (4096, 65536, 1024 * 1024):
            c = chunk_of(M)
            for z in (0, 1, c - 1, c, 3 * c + 17):
                for pos in ('0', '1', 'mid', 'chunk', 'end'):
                    sc.append({'M': M, 'twin': t, 'kind': 'bytes-at', 'size': z, 'pos': pos})
            for z in (1, c, 2 * c + 100, 5 * c):
                for ex in (1, c + 17):
                    sc.append({'M': M, 'twin': t, 'kind': 'file-grow', 'size': z, 'extra': ex})
    out.append(Part('partly-read-and-growing-sources', sc, run_odd, what='a BytesIO whose read position is not 0 and a file that is appended to while it is pushed, each with no / a counting / a raising '
                    'progress callback: the device receives the same bytes in all three runs', bound='%d cases x 3 callbacks' % len(sc)))
    sc = [{'kind': 'dir', 'M': 4096, 'twin': t, 'size': 3000, 'names': nm, 'cb': cb} for t in twins for cb in (None, 'count')
          for nm in (['a', 'b.d', 'c'], ['a.d', 'b', 'c'], ['a', 'b', 'c.d'], ['a', 'b.d', 'c', 'd.d', 'e'])]
    sc += [{'kind': 'fifo', 'M': M, 'twin': t, 'pieces': pc, 'cb': cb} for t in twins for M in (4096, 1024 * 1024) for pc in ([1000, 1000, 1000], [1, 5000], [2048, 1]) for cb in (None, 'count')]
    out.append(Part('subdirectories-and-pipes', sc, run_odd_dir, what='directories with a sub-directory between regular files (fixed listing order) and named pipes fed in pieces (short reads before end-of-file)',
                    bound='%d cases' % len(sc), chunk=1, workers=4))
    sc = [{'M1': a, 'M2': b, 'size': z, 'twin': t, 'close': c} for a in (4096, 65536, 1024 * 1024) for b in (4096, 65536, 1024 * 1024) for z in (100, 70000, 300000) for t in twins for c in (False, True)]
    out.append(Part('reconnect-other-maxdata', sc, run_reconnect, what='push, connect() again (with or without close()) to a device announcing another maxdata, push again',
                    bound='%d cases' % len(sc)))
    if tier == 'thorough':
        c = chunk_of(65536)
        sc = [{'M': 65536, 'size': z, 'twin': twins[z % 2]} for z in range(0, 3 * c + 65)]
        out.append(Part('all-sizes-maxdata-64k', sc, run_push, what='every file size 0..3*chunk+64 at maxdata 64 KiB (twins alternating)', bound='%d pushes' % len(sc)))
        sc = [{'M': M, 'size': 5 * 1024 * 1024 + d, 'twin': t, 'src': s} for M in (4096, 1024 * 1024) for d in (0, 1) for t in twins for s in ('bytes', 'file')]
        out.append(Part('multi-mib', sc, run_push, what='5 MiB files', bound='%d pushes' % len(sc)))
    return out
