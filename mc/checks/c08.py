"""C08 -- pull writes exactly the device file for every DATA composition and WRTE cut placement."""
from .. import oracle
from ..common import rng
from ..harness import Session
from ..runner import Part

PROPERTY = 'C08'
LEVEL = 'exploration'
RULE = ('file contents of length 0..6: ALL 2^(n-1) compositions into sync DATA records x ALL sets of <=k cut positions of the resulting sync byte stream into '
        'WRTE payloads (so every 8-byte sync header is split at every offset) + the all-1-byte chunking, destinations path/BytesIO, callback none/counting/'
        'raising, both twins, read-fragment deviations; zero-length WRTEs inside the reply; zero-size DATA records; a pull following an aborted pull on the same connection; device paths outside ASCII (one a prefix of another) with the exact UTF-8 path seen by the device; large files (64 KiB boundaries, MiB) x record sizes x WRTE sizes; oracle: destination bytes == model '
        'file, stream closed with exactly one host CLSE and every device packet consumed, callback counts sum to the size; non-trivial = file non-empty; '
        'distinct = distinct (content length, composition, cut set, destination, callback, twin, deviations)')
ASSUMPTIONS = ['adbsim sync service (mc/adbsim.py) follows SYNC.TXT', 'file contents are seeded pseudo-random bytes; only length and chunking are enumerated']


def content(n, salt='c08'):
    r = rng(salt, n)
    return r.randbytes(n) if n else b''


def run_small(params, ch):
    n, twin, dest, cb, kmax = params['n'], params['twin'], params['dest'], params['cb'], params['kmax']
    data = content(n)
    comp = oracle.compositions(n, ch.choose('records', 1 << (n - 1), 0) if n > 1 else 0)
    blob_len = sum(8 + c for c in comp) + 8
    if params.get('all1'):
        cut = {'size': 1}
        cuts = 'all-1-byte'
    else:
        cuts = oracle.choose_cuts(ch, blob_len, kmax)
        cut = {'at': cuts}
    cfg = {'fs': {'files': {b'/f': {'data': data, 'mode': 0o100644, 'mtime': 9}}}, 'records': comp, 'cut': cut, 'okay_order': params.get('okay')}
    if params.get('empty_at') is not None:
        cfg['empty_wrte_at'] = params['empty_at']
    return pull_and_judge(params, ch, cfg, data, (n, tuple(comp), tuple(cuts) if isinstance(cuts, list) else cuts))


def pull_and_judge(params, ch, cfg, data, shape):
    twin, dest, cb = params['twin'], params['dest'], params['cb']
    s = Session(ch, cfg, twin=twin, frag=params.get('frag', False))
    try:
        s.op(('connect',))
        r = s.op(('pull', '/f', dest, {'cb': cb} if cb else {}))
        viol = oracle.base_viol(s, completed=(r[0] == 'ok'))
        if r[0] != 'ok':
            viol.append({'msg': 'pull ended with %r' % (r,)})
        elif r[1] is None:
            viol.append({'msg': 'pull returned but the destination file was never created (device file has %d bytes)' % len(data)})
        elif r[1] != data:
            got = r[1]
            viol.append({'msg': 'pull wrote %d bytes, device file has %d; first difference at %s' % (
                len(got), len(data), next((i for i, (a, b) in enumerate(zip(got, data)) if a != b), min(len(got), len(data))))})
        if cb and r[0] == 'ok':
            bad = [x[1] for x in s.cb_log if not isinstance(x[1], int) or isinstance(x[1], bool)]
            tot = sum(x[1] for x in s.cb_log if isinstance(x[1], int))
            if bad:
                viol.append({'msg': 'progress callback received %r as a byte count' % (bad[:3],)})
            elif tot != len(data):
                viol.append({'msg': 'progress callback byte counts sum to %d, file size is %d' % (tot, len(data))})
        reqs = [q for q in s.env.sync_requests if q[1] == b'RECV']
        if reqs != [(reqs[0][0] if reqs else 0, b'RECV', b'/f')]:
            viol.append({'msg': 'device saw RECV requests %r' % (reqs,)})
        big = len(data) > 64
        return {'outcome': (r[0], r[1] if not big else len(r[1] or b''), len(s.cb_log)), 'viol': viol,
                'nontrivial': (shape, twin, dest, cb, tuple(ch.choices)) if data else None,
                'sample': {'size': len(data), 'shape': shape if not big else str(shape)[:80], 'twin': twin, 'dest': dest, 'cb': cb, 'result': r[0]},
                'trans': len(s.env.events)}
    finally:
        s.finish()


PATHS = ['/sd/caf\u00e9/log1', '/sd/caf\u00e9/log10', '/\u3042/\u3044', '/data/\U0001F600.bin', '/a b/c,d', '/sd/\u00fc', '/plain/ascii']


def run_paths(params, ch):
    """Device paths outside ASCII (their UTF-8 length differs from their character count), one of them a prefix of another: pull
    writes the bytes of exactly the requested file, and the device sees exactly the UTF-8 path in RECV (and in the STAT of a callback)."""
    twin, dest, cb = params['twin'], params['dest'], params['cb']
    files = {p.encode('utf-8'): {'data': content(20 + 7 * i, 'path%d' % i), 'mode': 0o100644, 'mtime': 9} for i, p in enumerate(PATHS)}
    cfg = {'fs': {'files': files}, 'records': [9], 'cut': {'size': params['wrte']}}
    s = Session(ch, cfg, twin=twin)
    try:
        s.op(('connect',))
        viol = []
        res = []
        for p in PATHS:
            n0 = len(s.env.sync_requests)
            r = s.op(('pull', p, dest, {'cb': cb} if cb else {}))
            res.append(r[0])
            want = files[p.encode('utf-8')]['data']
            if r != ('ok', want):
                viol.append({'msg': 'pull(%r) delivered %r, the device file has %d bytes (%r...)' % (p, (r[0], (len(r[1]) if r[1] is not None else None) if r[0] == 'ok' else r[1:3]), len(want), want[:8])})
            reqs = [(q[1], q[2]) for q in s.env.sync_requests[n0:]]
            wantq = ([(b'STAT', p.encode('utf-8'))] if cb else []) + [(b'RECV', p.encode('utf-8'))]
            if reqs != wantq:
                viol.append({'msg': 'pull(%r): the device saw sync requests %r, expected %r' % (p, reqs, wantq)})
        viol += oracle.base_viol(s, completed=all(x == 'ok' for x in res))
        return {'outcome': tuple(res), 'viol': viol, 'nontrivial': tuple(sorted((k, str(v)) for k, v in params.items())), 'sample': dict(params, results=res), 'trans': len(s.env.events)}
    finally:
        s.finish()


def run_zero_records(params, ch):
    """DATA records of size 0 among the others (SYNC.TXT allows any size up to 64 KiB): they carry nothing and must change nothing."""
    data = content(params['n'], 'zero')
    comp = list(params['records'])
    blob_len = sum(8 + c for c in comp) + 8
    cuts = oracle.choose_cuts(ch, blob_len, params['kmax'])
    cfg = {'fs': {'files': {b'/f': {'data': data, 'mode': 0o100644, 'mtime': 9}}}, 'records': comp, 'cut': {'at': cuts}}
    return pull_and_judge(params, ch, cfg, data, (params['n'], tuple(comp), tuple(cuts)))


def run_after_abort(params, ch):
    """A pull that is aborted while sync bytes are buffered (the destination fails, or the device service dies mid-record), then an
    ordinary pull on the same connection: it must deliver exactly its file."""
    twin = params['twin']
    first = content(200, 'abort')
    second = content(params['n2'], 'second')
    cfg = {'fs': {'files': {b'/first': {'data': first}, b'/f': {'data': second}}}, 'records': params['rec'], 'cut': {'size': params['wrte']}}
    if params['how'] == 'die':
        cfg['die'] = {'stream': 0, 'after': params['k']}
    s = Session(ch, cfg, twin=twin, eps=0.001)
    try:
        s.op(('connect',))
        kw = {'transport_timeout_s': 0.05, 'read_timeout_s': 0.2}
        r1 = s.op(('pull', '/first', 'failsink:%d' % params['k'] if params['how'] == 'sink' else 'bytesio', kw))
        r2 = s.op(('pull', '/f', 'bytesio', kw))
        viol = []
        if r1[0] == 'ok' and r1[1] != first:
            viol.append({'msg': 'the first pull completed but delivered %d bytes instead of %d' % (len(r1[1]), len(first))})
        if r2 != ('ok', second):
            viol.append({'msg': 'pull after an aborted pull (%s) delivered %r, the device file has %d bytes: %r' % (
                params['how'], (r2[0], len(r2[1]) if r2[0] == 'ok' else r2[1:]), len(second), r2[1][:24] if r2[0] == 'ok' else '')})
        viol += [{'msg': '%s: %s' % i} for i in s.env.issues if i[0] in ('frame', 'overread', 'dup-id')]
        return {'outcome': (r1[:2], r2[0]), 'viol': viol, 'nontrivial': tuple(sorted((k, str(v)) for k, v in params.items())), 'sample': dict(params, first=r1[:2], second=r2[0]),
                'trans': len(s.env.events)}
    finally:
        s.finish()


def run_big(params, ch):
    size = params['size']
    data = content(size, 'big')
    rec = params['rec']
    if rec == 'mixed':
        recs = [1, 65536, 7, 65535, 2]
    elif rec == 'one':
        recs = 1
    else:
        recs = 65536
    cfg = {'fs': {'files': {b'/f': {'data': data, 'mode': 0o100644, 'mtime': 9}}}, 'records': recs, 'cut': {'size': params['wrte']}}
    return pull_and_judge(params, ch, cfg, data, (size, rec, params['wrte']))


def parts(tier):
    k = 2 if tier == 'quick' else 3
    twins = ('sync', 'async')
    sc = [{'n': n, 'twin': t, 'dest': 'bytesio', 'cb': None, 'kmax': k} for n in range(0, 7) for t in twins]
    out = [Part('compositions-x-cuts', sc, run_small, {'*': None}, split=2, what='contents 0..6 bytes, all DATA compositions, all cut sets', bound='<=%d cuts' % k)]
    sc = [{'n': n, 'twin': t, 'dest': d, 'cb': cb, 'kmax': 1} for n in (0, 1, 3, 5) for t in twins for d in ('bytesio', 'path', 'newpath') for cb in (None, 'count', 'raise')
          if (d, cb) != ('bytesio', None)]
    sc += [{'n': n, 'twin': t, 'dest': 'bytesio', 'cb': cb, 'kmax': 0, 'all1': True} for n in range(0, 7) for t in twins for cb in (None, 'count')]
    out.append(Part('dest-x-callback', sc, run_small, {'*': None}, what='destination path/BytesIO x callback none/counting/raising; all-1-byte chunking', bound='<=1 cut'))
    sc = [{'n': n, 'twin': t, 'dest': 'bytesio', 'cb': cb, 'kmax': 1, 'okay': 'late'} for n in range(0, 6) for t in twins for cb in (None, 'count')]
    out.append(Part('reply-before-okay', sc, run_small, {'*': None}, what='DATA records overtaking the OKAY that acknowledges the RECV request', bound='<=1 cut'))
    sc = [{'n': 4, 'records': rec, 'twin': t, 'dest': d, 'cb': cb, 'kmax': 1} for rec in ([0, 4], [2, 0, 2], [0, 0, 4], [1, 0, 3], [4, 0]) for t in twins for d in ('bytesio', 'path') for cb in (None, 'count')]
    out.append(Part('zero-size-data-records', sc, run_zero_records, {'*': None}, what='DATA records of size 0 in front of, between and after the others, every single cut', bound='%d cases x every single cut' % len(sc)))
    sc = [{'n': n, 'twin': t, 'dest': 'bytesio', 'cb': cb, 'kmax': 1, 'empty_at': e} for n in (0, 1, 4) for t in twins for cb in (None, 'count') for e in (0, 1, 2)]
    out.append(Part('empty-wrte-in-reply', sc, run_small, {'*': None}, what='a zero-length WRTE in front of piece 0/1/2 of the RECV reply (and of the STAT reply of a callback), all compositions, every single cut', bound='<=1 cut'))
    sc = [{'n': n, 'twin': t, 'dest': 'bytesio', 'cb': cb, 'kmax': 1, 'frag': True} for n in (1, 4) for t in twins for cb in (None, 'count')]
    out.append(Part('frag', sc, run_small, {'records': None, 'ncuts': None, 'cutpos': None, 'frag': 1}, split=2, what='read-fragment deviations on top of compositions and cuts',
                    bound='frag deviations <= 1, <=1 cut'))
    sc = [{'twin': t, 'how': h, 'k': k, 'rec': rec, 'wrte': w, 'n2': n2} for t in twins for h in ('sink', 'die') for k in (0, 1, 2, 3) for rec in (7, 50, 200) for w in (5, 13, 64, 4096)
          for n2 in (0, 9, 300)]
    out.append(Part('pull-after-aborted-pull', sc, run_after_abort, what='an aborted pull (failing destination / device service dies mid-record) followed by an ordinary pull on the same connection',
                    bound='%d cases' % len(sc)))
    sc = [{'twin': t, 'dest': d, 'cb': cb, 'wrte': w} for t in twins for d in ('bytesio', 'path') for cb in (None, 'count', 'raise') for w in (5, 4096)]
    out.append(Part('non-ascii-paths', sc, run_paths, what='7 device paths (non-ASCII, spaces and commas, one a prefix of another) pulled in turn on one connection', bound='%d cases x 7 paths' % len(sc),
                    min_outcomes=1))
    sizes = [65535, 65536, 65537, 3 * 512 * 1024] + ([5 * 1024 * 1024] if tier == 'thorough' else [])
    sc = [{'size': z, 'rec': rc, 'wrte': w, 'twin': t, 'dest': d, 'cb': cb} for z in sizes for rc in ('max', 'one', 'mixed') for w in (1024 * 1024, 4096, 1000)
          for t in twins for (d, cb) in (('bytesio', None), ('path', 'count'))
          if not (rc == 'one' and z > 70000) and not (z > 1000000 and w == 1000 and tier == 'quick')]
    out.append(Part('large', sc, run_big, what='64 KiB boundaries and MiB files x record sizes x WRTE sizes', bound='%d cases' % len(sc)))
    return out
