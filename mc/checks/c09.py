"""C09 -- list and stat return exactly the device's directory entries and metadata."""
from .. import oracle
from ..harness import Session
from ..runner import Part

PROPERTY = 'C09'
LEVEL = 'exploration'
B = [0, 1, 2, 0x7F, 0x80, 0xFF, 0x100, 0xFFFF, 0x10000, 2**31 - 1, 2**31, 2**32 - 2, 2**32 - 1]
RULE = ('list: every sequence of 0..3 entries from a pool of boundary entries (names a, 255 x b, \\xff\\x00/, UTF-8; mode/size/mtime in {0,1,2^31,2^32-1}) x ALL sets '
        'of <=k cut positions of the DENT/DONE reply stream (short-name listings) or <=1 (all listings) + all-1-byte + 300-entry listings x WRTE sizes; stat: all '
        '13^3 boundary triples x every cut position of the 16-byte reply, <=2 cuts on a subset; both twins; the same with the reply WRTEs overtaking the OKAY of the request (legal per protocol.txt); the same requests after a reply that was cut off in mid-record, after an abandoned OPEN that is answered late, under global bulk_read fragmentation policies, with a zero-length WRTE inside the reply, and beside a second live stream of the same connection (all wire orders); oracle: return value == model filesystem, '
        'stream closed, all device packets consumed; non-trivial = at least one entry / any stat; distinct = distinct (listing or triple, cut set, twin)')
ASSUMPTIONS = ['adbsim sync service follows SYNC.TXT', 'field values come from a 13-value boundary alphabet, names from a 5-name pool']

POOL = [(b'a', 0, 0, 0), (b'b' * 255, 2**32 - 1, 2**32 - 1, 2**32 - 1), (b'\xff\x00/', 2**31, 1, 2**31), ('あé'.encode(), 0o100644, 2**31, 1),
        (b'DONE', 0x41ED, 0, 2**32 - 1), (b'a', 1, 2**32 - 1, 0)]
SHORT = [POOL[0], POOL[2], POOL[4]]


def listing(pool, n, idx):
    out = []
    for _ in range(n):
        out.append(pool[idx % len(pool)])
        idx //= len(pool)
    return out


def run_list(params, ch):
    pool = SHORT if params.get('pool') == 'short' else POOL
    ents = listing(pool, params['n'], params['idx']) if 'n' in params else [(b'f%03d' % i + b'x' * (i % 40), B[i % 13], B[(i * 7) % 13], B[(i * 5) % 13]) for i in range(params['many'])]
    blob_len = sum(20 + len(e[0]) for e in ents) + 20
    if 'size' in params:
        cut = {'size': params['size']}
        cuts = 'size-%d' % params['size']
    else:
        cuts = oracle.choose_cuts(ch, blob_len, params['kmax'])
        cut = {'at': cuts}
    cfg = {'fs': {'dirs': {b'/d': ents}}, 'cut': cut, 'okay_order': params.get('okay')}
    if params.get('empty_at') is not None:
        cfg['empty_wrte_at'] = params['empty_at']
    if params.get('policy'):
        cfg['frag_policy'] = params['policy']
    s = Session(ch, cfg, twin=params['twin'])
    try:
        s.op(('connect',))
        r = s.op(('list', '/d'))
        viol = oracle.base_viol(s, completed=(r[0] == 'ok'))
        want = [(bytes(e[0]), e[1], e[2], e[3]) for e in ents]
        if r[0] != 'ok':
            viol.append({'msg': 'list ended with %r' % (r,)})
        else:
            got = [(bytes(e[0]), e[1], e[2], e[3]) for e in r[1]]
            if got != want:
                viol.append({'msg': 'list returned %r, device sent %r (cuts %r)' % (got[:4], want[:4], cuts)})
        if (b'LIST', b'/d') not in [q[1:] for q in s.env.sync_requests]:
            viol.append({'msg': 'device saw sync requests %r' % (s.env.sync_requests,)})
        return {'outcome': (r[0], len(r[1]) if r[0] == 'ok' else r[1:], explore_digest(r[1]) if r[0] == 'ok' else 0), 'viol': viol,
                'nontrivial': (params.get('pool'), params.get('n'), params.get('idx'), params.get('many'), tuple(cuts) if isinstance(cuts, list) else cuts, params['twin']) if ents else None,
                'sample': {'entries': [(e[0][:8], e[1], e[2], e[3]) for e in ents[:3]], 'n': len(ents), 'cuts': cuts, 'twin': params['twin']}, 'trans': len(s.env.events)}
    finally:
        s.finish()


def explore_digest(x):
    from ..explore import digest
    return digest(x)


def run_stat(params, ch):
    m, z, t = params['triple']
    cuts = oracle.choose_cuts(ch, 16, params['kmax'])
    cfg = {'fs': {'stats': {b'/s': (m, z, t)}}, 'cut': {'at': cuts}, 'okay_order': params.get('okay')}
    if params.get('empty_at') is not None:
        cfg['empty_wrte_at'] = params['empty_at']
    if params.get('policy'):
        cfg['frag_policy'] = params['policy']
    s = Session(ch, cfg, twin=params['twin'])
    try:
        s.op(('connect',))
        r = s.op(('stat', '/s'))
        viol = oracle.base_viol(s, completed=(r[0] == 'ok'))
        if r != ('ok', (m, z, t)):
            viol.append({'msg': 'stat returned %r, device sent %r (cuts %r)' % (r, (m, z, t), cuts)})
        if (b'STAT', b'/s') not in [q[1:] for q in s.env.sync_requests]:
            viol.append({'msg': 'device saw sync requests %r' % (s.env.sync_requests,)})
        return {'outcome': r, 'viol': viol, 'nontrivial': (m, z, t, tuple(cuts), params['twin']),
                'sample': {'triple': (m, z, t), 'cuts': cuts, 'twin': params['twin']}, 'trans': len(s.env.events)}
    finally:
        s.finish()


def run_late(params, ch):
    """An earlier command's OPEN is answered only after the caller gave up; list and stat on the same connection must still
    return exactly the model's data."""
    ents = listing(POOL, 2, params['idx'])
    cfg = {'fs': {'dirs': {b'/d': ents}, 'stats': {b'/s': (1, 2, 3)}}, 'shell': {b'shell:slow': [b'LATE-1', b'LATE-2'][:params['nlate']]}, 'open_delay': {b'shell:slow': params['delay']},
           'cut': {'size': params['wrte']}}
    s = Session(ch, cfg, twin=params['twin'])
    try:
        s.op(('connect',))
        r1 = s.op(('shell', 'slow', {'decode': False, 'transport_timeout_s': 0.5, 'read_timeout_s': 1.0}))
        viol = []
        for name in ('list', 'stat', 'list'):
            r = s.op(('list', '/d') if name == 'list' else ('stat', '/s'))
            want = ('ok', [(bytearray(e[0]), e[1], e[2], e[3]) for e in ents]) if name == 'list' else ('ok', (1, 2, 3))
            if r != want:
                viol.append({'msg': '%s after an abandoned open that the device answered late returned %r' % (name, r if len(repr(r)) < 200 else repr(r)[:200])})
                break
        viol += [{'msg': '%s: %s' % i} for i in s.env.issues if i[0] in ('dup-id', 'frame', 'overread')]
        return {'outcome': (r1[:2],), 'viol': viol, 'nontrivial': tuple(sorted((k, str(v)) for k, v in params.items())), 'sample': dict(params, first=r1[:2]), 'trans': len(s.env.events)}
    finally:
        s.finish()


def run_beside(params, ch):
    """list and stat while another stream of the same connection is live (a suspended streaming_shell with packets in flight):
    whichever reader takes a packet off the wire, each call returns exactly the model's data and closes its stream."""
    from .. import scen
    ents = listing(POOL, 2, params['idx'])
    other = [b'OTHER-1', b'OTHER-2', b'OTHER-3'][:params['nother']]
    cfg = {'fs': {'dirs': {b'/d': ents}, 'stats': {b'/s': (2**32 - 1, 2**31, 1)}}, 'shell': {b'shell:other': other}, 'clse': params['clse'], 'cut': {'size': params['wrte']},
           'remote_ids': scen.REMOTE_FAMILIES[params['family']]}
    s = Session(ch, cfg, twin=params['twin'])
    try:
        s.op(('connect',))
        r0 = s.op(('gen-start', 'other', {'decode': False}))
        viol = []
        if r0 != ('ok', other[0]):
            viol.append({'msg': 'first item of the other stream: %r' % (r0,)})
        for name in params['ops']:
            r = s.op(('list', '/d') if name == 'list' else ('stat', '/s'))
            want = ('ok', [(bytearray(e[0]), e[1], e[2], e[3]) for e in ents]) if name == 'list' else ('ok', (2**32 - 1, 2**31, 1))
            if r != want:
                viol.append({'msg': '%s beside a live stream returned %r, the device sent %r' % (name, r if len(repr(r)) < 200 else repr(r)[:200], want[1] if len(repr(want)) < 200 else '...')})
                break
        if not viol:
            r2 = s.op(('gen-rest', 0))
            if r2 != ('ok', other[1:]):
                viol.append({'msg': 'rest of the other stream: %r' % (r2,)})
            viol += oracle.base_viol(s, completed=True)
        order = tuple((p.cmd, p.a1) for w, p in s.env.events if w == 'D')
        return {'outcome': (len(viol), order), 'viol': viol, 'nontrivial': (tuple(sorted((k, str(v)) for k, v in params.items())), tuple(ch.choices)), 'sample': dict(params, wire_order=[(c.decode(), i) for c, i in order][:12]),
                'trans': len(s.env.events)}
    finally:
        s.finish()


def run_retry(params, ch):
    """The device service dies in the middle of a list/stat reply (CLSE instead of the next WRTE); the same request on the same
    connection afterwards must return exactly the model's data (nothing of the aborted reply may leak into it)."""
    ents = listing(POOL, 3, params['idx'])
    cfg = {'fs': {'dirs': {b'/d': ents}, 'stats': {b'/s': (0o100644, 0x12345678, 0x9ABCDEF0)}}, 'cut': {'size': params['wrte']}, 'die': {'stream': 0, 'after': params['k']}}
    s = Session(ch, cfg, twin=params['twin'], eps=0.001)
    try:
        s.op(('connect',))
        kw = {'transport_timeout_s': 0.05, 'read_timeout_s': 0.2}
        first = ('list', '/d', kw) if params['first'] == 'list' else ('stat', '/s', kw)
        r1 = s.op(first)
        viol = []
        for name in ('list', 'stat', 'list'):
            r = s.op(('list', '/d', kw) if name == 'list' else ('stat', '/s', kw))
            want = ('ok', [(bytearray(e[0]), e[1], e[2], e[3]) for e in ents]) if name == 'list' else ('ok', (0o100644, 0x12345678, 0x9ABCDEF0))
            if r != want:
                viol.append({'msg': '%s after an aborted %s (service died after %d WRTEs of %d bytes) returned %r' % (name, params['first'], params['k'], params['wrte'], r if len(repr(r)) < 200 else repr(r)[:200])})
                break
        return {'outcome': (r1[:2],), 'viol': viol, 'nontrivial': tuple(sorted((k, str(v)) for k, v in params.items())), 'sample': dict(params, first_result=r1[:2]), 'trans': len(s.env.events)}
    finally:
        s.finish()


def parts(tier):
    k = 2 if tier == 'quick' else 3
    twins = ('sync', 'async')
    sc = [{'pool': 'short', 'n': n, 'idx': i, 'twin': t, 'kmax': k} for n in range(0, 4 if tier == 'thorough' else 3) for i in range(len(SHORT) ** n) for t in twins]
    out = [Part('list-short-x-cuts', sc, run_list, {'*': None}, split=1, what='listings of 0..%d short-name entries, all cut sets' % (3 if tier == 'thorough' else 2),
                bound='<=%d cuts' % k)]
    sc = [{'pool': 'full', 'n': n, 'idx': i, 'twin': t, 'kmax': 1} for n in range(0, 4) for i in range(len(POOL) ** n) for t in twins
          if tier == 'thorough' or n < 3 or (i % 7 == 0)]
    out.append(Part('list-pool-x-1cut', sc, run_list, {'*': None}, what='listings of 0..3 entries from the boundary pool, every single cut position',
                    bound='<=1 cut' + ('' if tier == 'thorough' else '; 3-entry listings: every 7th (stated cap)'), exhaustive=(tier == 'thorough')))
    sc = [{'pool': 'full', 'n': n, 'idx': i, 'twin': t, 'size': 1} for n in range(0, 3) for i in range(len(POOL) ** n) for t in twins]
    sc += [{'many': m, 'size': z, 'twin': t} for m in (300,) for z in (1024 * 1024, 4096, 7) for t in twins]
    out.append(Part('list-1byte-and-300', sc, run_list, what='all-1-byte chunking; 300-entry listing x WRTE sizes', bound='%d cases' % len(sc)))
    sc = [{'triple': (a, b, c), 'twin': t, 'kmax': 1} for a in B for b in B for c in B for t in (twins if tier == 'thorough' else ('sync',))]
    if tier == 'quick':
        sc += [{'triple': (a, b, c), 'twin': 'async', 'kmax': 1} for a in B for b in B[::4] for c in B[::4]]
    out.append(Part('stat-triples-x-cut', sc, run_stat, {'*': None}, what='13^3 boundary triples x every cut position of the reply', bound='<=1 cut'))
    sc = [{'pool': 'short', 'n': n, 'idx': i, 'twin': t, 'kmax': 1, 'okay': 'late'} for n in range(0, 3) for i in range(len(SHORT) ** n) for t in twins]
    sc += [{'pool': 'full', 'n': 2, 'idx': i, 'twin': t, 'size': z, 'okay': 'late'} for i in range(0, 36, 5) for t in twins for z in (1, 7, 64)]
    out.append(Part('list-reply-before-okay', sc, run_list, {'*': None}, what='the device\'s reply WRTEs overtake the OKAY that acknowledges the request', bound='%d listings x every single cut' % len(sc)))
    sc = [{'triple': (a, b, c), 'twin': t, 'kmax': 1, 'okay': 'late'} for a in B[::3] for b in B[::3] for c in B[::3] for t in twins]
    out.append(Part('stat-reply-before-okay', sc, run_stat, {'*': None}, what='stat reply overtakes the OKAY of the request', bound='%d triples x every single cut' % len(sc)))
    sc = [{'triple': (a, b, c), 'twin': t, 'kmax': k} for (a, b, c) in ((0, 0, 0), (2**32 - 1, 2**31, 1), (0o100644, 0x10000, 0xFF)) for t in twins]
    out.append(Part('stat-x-cuts', sc, run_stat, {'*': None}, split=1, what='selected triples, all cut sets', bound='<=%d cuts' % k))
    sc = [{'twin': t, 'first': f, 'k': k, 'wrte': w, 'idx': i} for t in twins for f in ('list', 'stat') for k in (0, 1, 2, 3, 5) for w in (3, 8, 11, 16, 25) for i in (1, 40, 111)]
    out.append(Part('retry-after-aborted-reply', sc, run_retry, what='list/stat whose reply is cut off in mid-record, then list, stat, list again on the same connection', bound='%d cases' % len(sc),
                    min_outcomes=1))
    sc = [{'twin': t, 'delay': d, 'nlate': n, 'wrte': w, 'idx': i} for t in twins for d in (0.7, 1.2, 1.7) for n in (0, 1, 2) for w in (7, 4096) for i in (3, 20)]
    out.append(Part('after-late-open-answer', sc, run_late, {'dev-order': None}, what='list/stat after an OPEN that the device answered only after the caller gave up', bound='%d cases x all wire orders' % len(sc),
                    min_outcomes=1))
    sc = [{'pool': 'full', 'n': 3, 'idx': i, 'twin': t, 'size': z, 'policy': pol} for i in (5, 77, 200) for t in twins for z in (7, 64, 4096) for pol in ('one', 'two', 'half', 'n-1', 'alt-empty-one')]
    out.append(Part('list-under-read-fragmentation', sc, run_list, what='listings under global bulk_read fragmentation policies (1 byte, 2 bytes, halves, n-1, alternating empty reads)', bound='%d cases' % len(sc)))
    sc = [{'triple': (a, b, c), 'twin': t, 'kmax': 1, 'policy': pol} for (a, b, c) in ((0, 0, 0), (2**32 - 1, 2**31, 1), (0o100644, 0x10000, 0xFF)) for t in twins for pol in ('one', 'two', 'half', 'n-1', 'alt-empty-one')]
    out.append(Part('stat-under-read-fragmentation', sc, run_stat, {'*': None}, what='stat under global bulk_read fragmentation policies x every single cut', bound='%d cases' % len(sc)))
    sc = [{'twin': t, 'ops': ops, 'clse': c, 'family': f, 'nother': n, 'wrte': w, 'idx': 9} for t in twins for ops in (['list'], ['stat'], ['stat', 'list']) for c in ('after-ack', 'eager')
          for f in ('small', 'mirror') for n in (1, 3) for w in (11, 4096)]
    out.append(Part('beside-a-live-stream', sc, run_beside, {'dev-order': None}, what='list/stat while a suspended streaming_shell of the same connection has packets in flight: every device wire order',
                    bound='%d cases x all wire orders' % len(sc)))
    sc = [{'pool': 'short', 'n': n, 'idx': i, 'twin': t, 'kmax': 1, 'empty_at': e} for n in (0, 1, 2) for i in (0, 5) for t in twins for e in (0, 1, 2)]
    out.append(Part('list-with-empty-wrte', sc, run_list, {'*': None}, what='a zero-length WRTE in front of piece 0/1/2 of the listing reply, every single cut', bound='%d listings x every single cut' % len(sc)))
    sc = [{'triple': (2**32 - 1, 2**31, 1), 'twin': t, 'kmax': 1, 'empty_at': e} for t in twins for e in (0, 1, 2)]
    out.append(Part('stat-with-empty-wrte', sc, run_stat, {'*': None}, what='a zero-length WRTE in front of piece 0/1/2 of the stat reply, every single cut', bound='%d cases x every single cut' % len(sc), min_outcomes=1))
    return out
