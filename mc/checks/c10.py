"""C10 -- device-side sync failures surface as the documented exception with the reason."""
from .. import frames, oracle
from ..common import rng
from ..harness import Session
from ..runner import Part

PROPERTY = 'C10'
LEVEL = 'exploration'
REASONS = [b'', b'x', b'Permission denied', b'r' * 300, b'bad \xff\xfe name', b'disk 100% full', b'%s %d %(x)s', b'50%%']
RULE = ('pull: FAIL right after RECV / after 1 or 2 DATA records / in place of DONE, also late in 6000/20000-byte transfers whose records straddle the WRTE packets; push: FAIL after SEND, after the k-th DATA, at DONE, for files of 100, 5000, 9000 and 17000 bytes at maxdata 4096 (1 to 5+ host WRTEs), '
        'with EVERY position of the FAIL WRTE among the device\'s OKAYs (emitted after 0..n further host WRTEs); reasons {empty, x, Permission denied, 300 bytes, non-UTF-8, three containing per-cent signs}; the '
        'FAIL record cut into WRTEs at every set of <=2 positions (<=1 for the 300-byte reason); sync records that are not valid at that point (every known id, first reply and after '
        'a DATA record, for pull, list, stat and the push status); both twins; oracle: pull -> AdbCommandFailureException containing the reason, push -> PushFailedError carrying it, '
        'a slow device whose FAIL record arrives in 3 WRTEs, each within the read timeout but together beyond it; invalid record -> InvalidResponseError, never a normal return, never a timeout class, less virtual time spent than the read timeout; non-trivial = every case; distinct = distinct parameter tuple x cut set')
ASSUMPTIONS = ['adbsim sync service: after a FAIL to SEND the device keeps consuming and acknowledging DATA until DONE, then closes (handle_send_file)',
               'ids outside the sync id table are unspecified (KeyError today) and not asserted']
TIMEOUTS = ('AdbTimeoutError', 'TcpTimeoutException')


def judge_exc(s, r, want_type, reason, viol, what):
    if r[0] == 'ok':
        viol.append({'msg': '%s returned normally (%r) although the device reported a failure' % (what, r[1])})
        return
    if r[0] != 'exc':
        viol.append({'msg': '%s ended with %r' % (what, r)})
        return
    if r[1] in TIMEOUTS:
        viol.append({'msg': '%s raised %s instead of %s: a timeout was substituted for the failure the device reported' % (what, r[1], want_type), 'timeout': True})
        return
    if r[1] != want_type:
        viol.append({'msg': '%s raised %s (%s), expected %s' % (what, r[1], r[2][:80], want_type)})
        return
    e = s.last_exc
    if reason is not None:
        if want_type == 'PushFailedError':
            got = e.args[0] if e.args else None
            if not isinstance(got, (bytes, bytearray)) or bytes(got) != reason:
                if not (isinstance(got, str) and reason.decode('utf8', 'backslashreplace') in got):
                    viol.append({'msg': '%s: PushFailedError carries %r, device said %r' % (what, got if got is None else got[:40], reason[:40])})
        else:
            if reason.decode('utf8', 'backslashreplace') not in str(e):
                viol.append({'msg': '%s: exception text %r does not contain the device\'s reason %r' % (what, str(e)[:80], reason[:40])})


def run_pull_fail(params, ch):
    reason = REASONS[params['reason']]
    when = params['when']
    data = rng('c10').randbytes(30)
    nd = when[1] if isinstance(when, (list, tuple)) else {'start': 0, 'done': 3}[when]
    blob_len = (8 + 10) * nd + 8 + len(reason)
    cuts = oracle.choose_cuts(ch, blob_len, params['kmax'])
    cfg = {'fs': {'files': {b'/f': {'data': data}}}, 'records': [10, 10, 10], 'cut': {'at': cuts},
           'fail': {'op': 'recv', 'when': tuple(when) if isinstance(when, list) else when, 'reason': reason}}
    slow = params.get('slow')
    if slow:
        cfg['wrte_delay'] = slow[0]
    s = Session(ch, cfg, twin=params['twin'], order_budgeted=bool(params.get('cb')))
    try:
        s.op(('connect',))
        t0 = s.env.clock.now
        pkw = {'cb': params['cb']} if params.get('cb') else {}
        r = s.op(('pull', '/f', 'bytesio', dict(pkw, read_timeout_s=slow[1]))) if slow else s.op(('pull', '/f', 'bytesio', pkw) if pkw else ('pull', '/f', 'bytesio'))
        viol = oracle.base_viol(s, completed=False)
        judge_exc(s, r, 'AdbCommandFailureException', reason, viol, 'pull (FAIL %s, cuts %r%s)' % (when, cuts, ', every device WRTE %.1f s late, read timeout %.1f s' % tuple(slow) if slow else ''))
        if s.env.clock.now - t0 >= 10.0 and not slow:
            viol.append({'msg': 'pull spent %.3f s of virtual time before reporting the failure' % (s.env.clock.now - t0)})
        return {'outcome': r[:2], 'viol': viol, 'nontrivial': ('pull', str(when), params['reason'], tuple(cuts), params['twin']),
                'sample': {'op': 'pull', 'fail_when': when, 'reason': reason[:20], 'cuts': cuts, 'twin': params['twin'], 'result': r[:2]}, 'trans': len(s.env.events)}
    finally:
        s.finish()


def run_pull_fail_long(params, ch):
    """A long transfer (many records, records straddling the WRTE packets) that the device ends with FAIL after k records or in place of DONE."""
    reason = REASONS[params['reason']]
    data = rng('c10long').randbytes(params['size'])
    when = params['when']
    cfg = {'fs': {'files': {b'/f': {'data': data}}}, 'records': params['rec'], 'cut': {'size': params['wrte']}, 'maxdata': params['maxdata'],
           'fail': {'op': 'recv', 'when': tuple(when) if isinstance(when, list) else when, 'reason': reason}}
    s = Session(ch, cfg, twin=params['twin'])
    try:
        s.op(('connect',))
        t0 = s.env.clock.now
        r = s.op(('pull', '/f', 'bytesio', {'cb': params['cb']} if params.get('cb') else {}))
        viol = oracle.base_viol(s, completed=False)
        judge_exc(s, r, 'AdbCommandFailureException', reason, viol, 'pull of %d bytes in %d-byte records over %d-byte WRTEs (FAIL %s)' % (params['size'], params['rec'], params['wrte'], when))
        if s.env.clock.now - t0 >= 10.0:
            viol.append({'msg': 'pull spent %.3f s of virtual time before reporting the failure' % (s.env.clock.now - t0)})
        return {'outcome': r[:2], 'viol': viol, 'nontrivial': tuple(sorted((k, str(v)) for k, v in params.items())),
                'sample': dict(params, result=r[:2]), 'trans': len(s.env.events)}
    finally:
        s.finish()


def run_push_fail(params, ch):
    reason = REASONS[params['reason']]
    when = params['when']
    size = params['size']
    cuts = oracle.choose_cuts(ch, 8 + len(reason), params['kmax'])
    cfg = {'maxdata': 4096, 'fail_cut': {'at': cuts},
           'fail': {'op': 'send', 'when': tuple(when) if isinstance(when, list) else when, 'reason': reason, 'delay': params['delay']}}
    slow = params.get('slow')
    if slow:
        cfg['wrte_delay'] = slow[0]
        if len(slow) > 2:
            cfg['okay_delay_all'] = slow[2]       # every round trip is slow: the whole push takes longer than the read timeout, no single wait does
    s = Session(ch, cfg, twin=params['twin'])
    try:
        s.op(('connect',))
        t0 = s.env.clock.now
        r = s.op(('push', ('bytes', rng('c10p').randbytes(size)), '/g', dict({'mtime': 5}, **({'read_timeout_s': slow[1]} if slow else {}))))
        viol = oracle.base_viol(s, completed=False)
        before = len(viol)
        nw = sum(1 for w, p in s.env.events if w == 'H' and p.cmd == b'WRTE')
        dev = [p.cmd for w, p in s.env.events if w == 'D' and p.cmd in (b'OKAY', b'WRTE')][1:]
        pos = dev.index(b'WRTE') if b'WRTE' in dev else None
        judge_exc(s, r, 'PushFailedError', reason, viol, 'push of %d bytes (FAIL %s, emitted after %d more host WRTEs, cuts %r)' % (size, when, params['delay'], cuts))
        # finding F5: the FAIL WRTE reached the host while it was waiting for the OKAY of a later WRTE
        for v in viol[before:]:
            if v.get('timeout') and pos is not None and pos < dev.count(b'OKAY') and nw >= 2:
                v['sig'] = 'F5'
        if s.env.clock.now - t0 >= 10.0 and r[0] == 'exc' and r[1] not in TIMEOUTS and not slow:
            viol.append({'msg': 'push spent %.3f s of virtual time before reporting the failure' % (s.env.clock.now - t0)})
        return {'outcome': (r[:2], nw, pos), 'viol': viol, 'nontrivial': ('push', size, str(when), params['delay'], params['reason'], tuple(cuts), params['twin']),
                'sample': {'op': 'push', 'size': size, 'fail_when': when, 'delay': params['delay'], 'reason': reason[:20], 'cuts': cuts, 'twin': params['twin'],
                           'host_wrtes': nw, 'fail_position_among_okays': pos, 'result': r[:2]}, 'trans': len(s.env.events)}
    finally:
        s.finish()


IDS = [b'DATA', b'DENT', b'DONE', b'FAIL', b'LIST', b'OKAY', b'QUIT', b'RECV', b'SEND', b'STAT']
VALID = {'pull': (b'DATA', b'DONE', b'FAIL'), 'list': (b'DENT', b'DONE', b'FAIL'), 'stat': (b'STAT', b'FAIL'), 'push': (b'OKAY', b'FAIL')}
HDR = {'pull': 8, 'list': 20, 'stat': 16, 'push': 8}


def run_invalid(params, ch):
    op, sid, after = params['op'], params['id'], params['after']
    fill = (frames.u32(0o100644) + frames.u32(5) + frames.u32(7) + frames.u32(3)) if params.get('fill') else b'\0' * 16
    rec = frames.u32(frames.S[sid]) + fill[:HDR[op] - 4]
    pre = b''
    if after and op == 'pull':
        pre = frames.sync_req(b'DATA', b'abc')
    if after and op == 'list':
        pre = frames.sync_dent(1, 2, 3, b'nm')
    blob = pre + rec
    cuts = oracle.choose_cuts(ch, len(blob), 1)
    cfg = {'fs': {'files': {b'/f': {'data': b'abc'}}, 'dirs': {b'/d': []}}, 'cut': {'at': cuts}, 'maxdata': 4096}
    if op == 'push':
        cfg['status_override'] = blob
    else:
        cfg['sync_override'] = {{'pull': b'RECV', 'list': b'LIST', 'stat': b'STAT'}[op]: blob}
    s = Session(ch, cfg, twin=params['twin'])
    try:
        s.op(('connect',))
        r = s.op({'pull': ('pull', '/f', 'bytesio'), 'list': ('list', '/d'), 'stat': ('stat', '/f'), 'push': ('push', ('bytes', b'hello'), '/g')}[op])
        viol = oracle.base_viol(s, completed=False)
        judge_exc(s, r, 'InvalidResponseError', None, viol, '%s answered with a %s record%s' % (op, sid.decode(), ' after a valid record' if after else ''))
        return {'outcome': r[:2], 'viol': viol, 'nontrivial': (op, sid, after, tuple(cuts), params['twin'], params.get('fill')),
                'sample': {'op': op, 'record': sid, 'after_valid_record': after, 'cuts': cuts, 'twin': params['twin'], 'result': r[:2]}, 'trans': len(s.env.events)}
    finally:
        s.finish()


def parts(tier):
    twins = ('sync', 'async')
    kp = 3 if tier == 'thorough' else 2
    sc = [{'when': w, 'reason': ri, 'twin': t, 'kmax': (1 if ri == 3 else (kp if ri in (0, 1) or w == 'start' else 2))} for w in ('start', ['data', 1], ['data', 2], 'done') for ri in range(len(REASONS)) for t in twins]
    out = [Part('pull-fail', sc, run_pull_fail, {'*': None}, what='pull: FAIL at every point x reasons x cut sets', bound='<=%d cuts' % kp, min_outcomes=1)]
    sc = [{'when': w, 'reason': ri, 'twin': t, 'kmax': 2, 'cb': cb} for w in (['data', 1], ['data', 2], 'done') for ri in (2,) for t in twins for cb in ('count', 'reenter')]
    out.append(Part('pull-fail-with-callback', sc, run_pull_fail, {'*': None, 'dev-order': 1}, what='the same with a progress callback, also one that queries the device (a second stream whose reader may take the FAIL fragments off the wire)',
                    bound='<=2 cuts, <=1 deviation of the device wire order', min_outcomes=1))
    sc = []
    # sizes at maxdata 4096 (chunk 2048): number of host WRTEs grows with the size (reported per sample)
    for size, nw in ((100, 1), (5000, 2), (9000, 3), (17000, 5)):
        ndata = -(-size // 2048)
        whens = ['header'] + [['data', k] for k in range(1, ndata + 1)] + ['done']
        for w in whens:
            for delay in range(0, nw + 1):
                for ri in range(len(REASONS)):
                    if tier == 'quick' and ri not in (1, 2) and delay not in (0, 1):
                        continue
                    for t in twins:
                        sc.append({'size': size, 'when': w, 'delay': delay, 'reason': ri, 'twin': t, 'kmax': (0 if tier == 'quick' else 1) if (ri == 3 or delay > 1) else (1 if tier == 'quick' else 2)})
    out.append(Part('push-fail', sc, run_push_fail, {'*': None}, what='push: FAIL at every point x every position among the OKAYs x reasons x cut sets',
                    bound='files of 100..17000 bytes (1..5+ host WRTEs); <=%d cuts' % (1 if tier == 'quick' else 2)))
    sc = [{'size': z, 'rec': rec, 'wrte': w, 'when': wh, 'reason': 2, 'twin': t, 'maxdata': md, 'cb': cb}
          for z in (6000, 20000) for rec in (1000, 4000, 65536) for w in (100, 1500, 4096) for md in (4096, 65536) for t in twins for cb in (None, 'count')
          for wh in ([['data', k] for k in range(1, -(-z // rec) + 1)][-3:] + ['done'])]
    out.append(Part('pull-fail-long-transfer', sc, run_pull_fail_long, what='pull: FAIL after the last records or in place of DONE of a 6000/20000-byte transfer whose records straddle the WRTE packets',
                    bound='%d cases' % len(sc), min_outcomes=1))
    # a slow but legal device: each WRTE arrives within the read timeout, the whole FAIL record (3 WRTEs) takes longer than it
    SLOW = (0.4, 1.0)
    sc = [{'when': w, 'reason': ri, 'twin': t, 'kmax': 2, 'slow': SLOW} for w in ('start', ['data', 1], 'done') for ri in (1, 2, 4) for t in twins]
    out.append(Part('pull-fail-slow-device', sc, run_pull_fail, {'*': None}, what='pull: the FAIL record arrives in up to 3 WRTEs, each 0.4 s after the previous acknowledgement, read timeout 1 s',
                    bound='<=2 cuts', min_outcomes=1))
    sc = [{'size': size, 'when': w, 'delay': d, 'reason': ri, 'twin': t, 'kmax': 2, 'slow': SLOW} for size in (100, 5000) for w in ('header', ['data', 1], 'done')
          for d in (0, 1) for ri in (1, 2) for t in twins]
    sc += [{'size': 17000, 'when': w, 'delay': d, 'reason': 2, 'twin': t, 'kmax': 1, 'slow': (0.0, 1.0, 0.2)} for w in (['data', 6], ['data', 8], 'done') for d in (0, 1) for t in twins]
    out.append(Part('push-fail-slow-device', sc, run_push_fail, {'*': None}, what='push: the same slow device rejecting a push', bound='<=2 cuts', min_outcomes=1))
    sc = [{'op': op, 'id': sid, 'after': a, 'twin': t, 'fill': f} for op in ('pull', 'list', 'stat', 'push') for sid in IDS if sid not in VALID[op]
          for a in ((False, True) if op in ('pull', 'list') else (False,)) for t in twins for f in ((False, True) if (sid == b'STAT' and op in ('pull', 'push')) else (False,))]       # fill: a STAT record with non-zero fields (a STAT record has no payload, whatever its fields say)
    out.append(Part('invalid-records', sc, run_invalid, {'*': None}, what='every known sync id that is not valid at that point, first reply and after a valid record',
                    bound='%d (op, id, point, twin) cases x every single cut' % len(sc), min_outcomes=1))
    return out
