"""C11 -- no operation hangs: a stalled device produces a timeout error in bounded (virtual) time."""
from .. import oracle, scen
from ..chooser import FixedChooser
from ..harness import Session
from ..runner import Part

PROPERTY = 'C11'
LEVEL = 'fault_enumeration'
EPS = 0.001
RULE = ('operation in {connect without auth / with a signature / waiting for the public key to be accepted, shell, exec_out, streaming_shell, root, reboot, list, stat, pull, pull with callback, '
        'push of 1 WRTE, push of several WRTEs} x EVERY device->host packet index the operation awaits x stall kind {silence, end-of-stream (empty reads forever), part of the awaited packet followed by empty reads, the sync service stopping in mid-reply while the stream layer stays alive, trickle (first 1/23/24/size-1 '
        'bytes of the awaited packet one per 0.9 x transport timeout, then silence), endless traffic for another stream, endless unexpected packets on this stream, a WRTE on this stream in place of the awaited packet followed by another one for every OKAY the host sends, the same with zero-length WRTEs} (plus: endless output on this stream for the operations that take a whole-command limit) x timeout grid (incl. a device-level default transport timeout of 30 s with no per-call value) transport '
        '{None, 0, 0.01, 0.5} x read {-1, 0, 0.05, 1} x total {None, 0, 0.02, 2} (auth {0.05, 1} for connect), virtual clock with 1 ms per transport call; oracle: the call raises AdbTimeoutError or '
        'the transport timeout class, never returns a result, never blocks forever, the transport-call watchdog is not exhausted, virtual time from the stall to the raise <= 4 x (read + transport) '
        '+ total + eps x calls, and every timeout handed to the transport <= effective read timeout <= total; non-trivial = every case; distinct = distinct (op, packet, stall, timeouts, twin)')
ASSUMPTIONS = ['adbsim device model; virtual clock charges 1 ms per transport call so that polling loops terminate', 'auth_timeout_s=None (documented: wait forever) is excluded',
               'negative timeouts are treated by the in-memory transport like 0']
PROGRAMMING_ERRORS = ('UnboundLocalError', 'NameError', 'AttributeError', 'TypeError', 'KeyError', 'IndexError', 'AssertionError', 'RuntimeError')     # never 'the error met while closing the stream'
TIMEOUTS = ('AdbTimeoutError', 'TcpTimeoutException')
CFG = dict(scen.ops_cfg('two', 4096))
PUSH1, PUSH3 = 100, 9000

OPS = {
    'shell': lambda kw: ('shell', 'c', dict(kw, decode=False)),
    'exec_out': lambda kw: ('exec_out', 'c', dict(kw, decode=False)),
    'streaming_shell': lambda kw: ('streaming_shell', 'c', dict({k: v for k, v in kw.items() if k != 'timeout_s'}, decode=False)),
    'root': lambda kw: ('root', kw),
    'reboot': lambda kw: ('reboot', kw),
    'list': lambda kw: ('list', '/d', {k: v for k, v in kw.items() if k != 'timeout_s'}),
    'stat': lambda kw: ('stat', '/f', {k: v for k, v in kw.items() if k != 'timeout_s'}),
    'pull': lambda kw: ('pull', '/f', 'bytesio', {k: v for k, v in kw.items() if k != 'timeout_s'}),
    'pull-cb': lambda kw: ('pull', '/f', 'bytesio', dict({k: v for k, v in kw.items() if k != 'timeout_s'}, cb='count')),
    'push1': lambda kw: ('push', ('bytes', scen.push_data(PUSH1)), '/g', {k: v for k, v in kw.items() if k != 'timeout_s'}),
    'push3': lambda kw: ('push', ('bytes', scen.push_data(PUSH3)), '/g', {k: v for k, v in kw.items() if k != 'timeout_s'}),
}
HAS_TOTAL = ('shell', 'exec_out', 'root', 'reboot')
CONNECTS = {
    'connect-noauth': {},
    'connect-sig': {'_sim': {'auth': {'first': 'token', 'sig': ['token', 'cnxn'], 'pub': 'cnxn'}}, '_keys': [0, 1]},
    'connect-pub': {'_sim': {'auth': {'first': 'token', 'sig': 'token', 'pub': 'cnxn'}}, '_keys': [0]},
}
_FR = {}


def frames_of(op, twin):
    """(frames consumed before the operation, frames consumed by it) in the healthy run."""
    key = (op, twin)
    if key not in _FR:
        s = Session(FixedChooser(), CFG, twin=twin, eps=EPS)
        try:
            if op in CONNECTS:
                r = s.op(('connect', dict(CONNECTS[op])))
                _FR[key] = (0, s.env.frames_seen, [p.cmd for w, p in s.env.events if w == 'D'])
            else:
                s.op(('connect',))
                a = s.env.frames_seen
                r = s.op(OPS[op]({}))
                _FR[key] = (a, s.env.frames_seen - a, [p.cmd for w, p in s.env.events if w == 'D'][a:])
            assert r[0] == 'ok', (op, r)
        finally:
            s.finish()
    return _FR[key]


def eff(transport, read, total):
    r = read if total is None else min(read, total)
    t = r if transport is None else min(transport, r)
    return t, r


def run_stall(params, ch):
    op, twin, k = params['op'], params['twin'], params['k']
    T, R, total, auth = params['T'], params['R'], params.get('total'), params.get('auth')
    before, _n = frames_of(op, twin)[:2]
    cfg = dict(CFG)
    cfg['stall'] = {'frame': before + k, 'kind': params['kind'], 'j': params.get('j', 1)}
    D = params.get('D')           # the device object's default_transport_timeout_s (used when the call gives none)
    s = Session(ch, cfg, twin=twin, eps=EPS, max_calls=60000, default_timeout=D)
    try:
        kw = {'transport_timeout_s': T, 'read_timeout_s': R}
        if T is None and D is not None:
            T = D
        if op in CONNECTS:
            ckw = dict(CONNECTS[op], **kw)
            ckw['auth_timeout_s'] = auth
            mark = len(s.env.timeouts)
            r = s.op(('connect', ckw))
        else:
            s.op(('connect',))
            if op in HAS_TOTAL:
                kw['timeout_s'] = total
            mark = len(s.env.timeouts)
            r = s.op(OPS[op](kw))
        env = s.env
        st = env.stall
        viol = []
        et, er = eff(T, R, total if op in HAS_TOTAL else None)
        sig = None
        if op == 'pull-cb' and 1 <= k <= frames_of('stat', twin)[1]:
            sig = 'F6'                 # the stall falls inside the nested stat issued for total_bytes
        if not st.active:
            # the operation ended before reaching the stalled packet: legitimate only when its own whole-command limit fired
            if not (r[0] == 'exc' and r[1] in TIMEOUTS):
                viol.append({'msg': 'harness: stall at packet %d of %s never became active, result %r' % (k, op, r[:2])})
        else:
            if r[0] == 'ok':
                viol.append({'msg': '%s returned %r although the device stalled (%s) at awaited packet %d' % (op, r[1], params['kind'], k)})
            elif r[0] in ('hang', 'watchdog', 'deadlock'):
                viol.append({'msg': '%s never finishes when the device stalls (%s) at awaited packet %d: %s (T=%r R=%r total=%r)' % (op, params['kind'], k, r, T, R, total), 'sig': sig})
            elif r[1] not in TIMEOUTS and op in ('pull', 'pull-cb') and r[1] not in PROGRAMMING_ERRORS:
                pass                   # C11: pull may instead report the error met while closing its stream afterwards
            elif r[1] not in TIMEOUTS:
                viol.append({'msg': '%s raised %s (%s) when the device stalled (%s) at awaited packet %d' % (op, r[1], r[2][:80], params['kind'], k)})
            else:
                elapsed = env.clock.now - st.t0
                calls = env.calls - st.calls0
                tt = max(0.0, et)
                if op == 'connect-pub':
                    tt = max(tt, auth)
                bound = 4 * (max(0.0, er) + tt) + max(0.0, total or 0.0) + EPS * calls + 1e-6
                if elapsed > bound:
                    viol.append({'msg': '%s took %.3f s of virtual time to report the stall (%s at packet %d); bound 4x(read %.3g + transport %.3g) + total %r + eps x %d calls = %.3f'
                                 % (op, elapsed, params['kind'], k, max(0.0, er), tt, total, calls, bound), 'sig': sig})
        if op not in CONNECTS:
            over = sorted({t for (_w, t) in env.timeouts[mark:] if t is None or t > max(er, et)}, key=repr)
            if over:
                viol.append({'msg': '%s handed timeout(s) %r to the transport; effective read timeout is %r (T=%r R=%r total=%r)' % (op, over[:3], er, T, R, total),
                             'sig': 'F6' if op == 'pull-cb' and all(t == 10.0 for t in over) else None})
        viol += [{'msg': '%s: %s' % i} for i in env.issues if i[0] in ('frame', 'overread')]
        return {'outcome': (r[0], r[1] if r[0] == 'exc' else None, st.active), 'viol': viol,
                'nontrivial': tuple(sorted((kk, str(v)) for kk, v in params.items())),
                'sample': dict(params, result=r[:2], virtual_seconds_to_raise=round(env.clock.now - st.t0, 4) if st.active else None,
                               transport_calls_after_stall=(env.calls - st.calls0) if st.active else None), 'trans': env.calls}
    finally:
        s.finish()


def run_endless(params, ch):
    """The device keeps answering (every WRTE of the stream arrives at once, forever) but the command never finishes: the
    whole-command limit timeout_s is what has to end it."""
    op, twin, T, R, total = params['op'], params['twin'], params['T'], params['R'], params['total']
    cfg = dict(CFG)
    dest = {'shell': b'shell:c', 'exec_out': b'exec:c', 'root': b'root:'}[op]
    cfg['endless'] = [dest]
    if params.get('empty'):
        cfg['endless_empty'] = True
    s = Session(ch, cfg, twin=twin, eps=EPS, max_calls=60000)
    try:
        s.op(('connect',))
        t0 = s.env.clock.now
        c0 = s.env.calls
        r = s.op(OPS[op]({'transport_timeout_s': T, 'read_timeout_s': R, 'timeout_s': total}))
        viol = []
        et, er = eff(T, R, total)
        if r[0] == 'ok':
            viol.append({'msg': '%s(timeout_s=%r) returned %r from a command that never finishes' % (op, total, r[1][:40] if r[1] else r[1])})
        elif r[0] != 'exc':
            viol.append({'msg': '%s(timeout_s=%r) never ends although the whole-command limit has passed: %r (T=%r R=%r)' % (op, total, r, T, R)})
        elif r[1] not in TIMEOUTS:
            viol.append({'msg': '%s(timeout_s=%r) raised %s' % (op, total, r[1])})
        else:
            elapsed = s.env.clock.now - t0
            calls = s.env.calls - c0
            bound = max(0.0, total) + 4 * (max(0.0, er) + max(0.0, et)) + EPS * calls + 1e-6
            if elapsed > bound:
                viol.append({'msg': '%s(timeout_s=%r) ended after %.3f s of virtual time, bound %.3f' % (op, total, elapsed, bound)})
        return {'outcome': r[:2], 'viol': viol, 'nontrivial': tuple(sorted((k, str(v)) for k, v in params.items())),
                'sample': dict(params, result=r[:2], virtual_seconds=round(s.env.clock.now - t0, 4), transport_calls=s.env.calls - c0), 'trans': s.env.calls}
    finally:
        s.finish()


def run_service_stall(params, ch):
    """The sync service stops answering in the middle of a reply while the stream layer stays alive (the device still answers the host's
    CLSE): the call must end with a timeout class within the bound -- never a normal return with partial data, never a hang."""
    op, twin, T, R = params['op'], params['twin'], params['T'], params['R']
    cfg = dict(CFG)
    cfg['sync_stalls'] = {'op': {'list': 'LIST', 'stat': 'STAT', 'pull': 'RECV', 'pull-cb': 'RECV'}[op], 'after': params['after']}
    if op in ('pull', 'pull-cb'):
        cfg['records'] = 10
    s = Session(ch, cfg, twin=twin, eps=EPS, max_calls=60000)
    try:
        s.op(('connect',))
        t0 = s.env.clock.now
        c0 = s.env.calls
        r = s.op(OPS[op]({'transport_timeout_s': T, 'read_timeout_s': R}))
        viol = []
        et, er = eff(T, R, None)
        if r[0] == 'ok':
            viol.append({'msg': '%s returned %r although the device never finished its reply (it stopped after %d records)' % (op, r[1] if len(repr(r[1])) < 120 else repr(r[1])[:120], params['after'])})
        elif r[0] != 'exc':
            viol.append({'msg': '%s never finishes when the sync service stops answering after %d records: %r (T=%r R=%r)' % (op, params['after'], r, T, R)})
        elif r[1] not in TIMEOUTS:
            viol.append({'msg': '%s raised %s (%s) when the sync service stopped answering after %d records' % (op, r[1], r[2][:80], params['after'])})
        else:
            elapsed = s.env.clock.now - t0
            calls = s.env.calls - c0
            bound = 6 * (max(0.0, er) + max(0.0, et)) + EPS * calls + 1e-6
            if elapsed > bound:
                viol.append({'msg': '%s took %.3f s of virtual time to report that the sync service stopped answering; bound %.3f' % (op, elapsed, bound)})
        return {'outcome': r[:2], 'viol': viol, 'nontrivial': tuple(sorted((k, str(v)) for k, v in params.items())), 'sample': dict(params, result=r[:2]), 'trans': s.env.calls}
    finally:
        s.finish()


def stalls(tier='quick'):
    out = [{'kind': 'silence'}, {'kind': 'eof'}, {'kind': 'other'}, {'kind': 'unexpected'}, {'kind': 'wrte'}, {'kind': 'wrte0'}]
    out += [{'kind': 'trickle', 'j': j} for j in ((1, 23, 24, -1) if tier == 'quick' else (1, 2, 12, 23, 24, 25, -2, -1))]
    out += [{'kind': 'trickle-eof', 'j': j} for j in ((23, 24, 25, -1) if tier == 'quick' else (1, 12, 23, 24, 25, -2, -1))]      # part of the packet, then empty reads
    return out


def parts(tier):
    twins = ('sync', 'async')
    Ts = (None, 0, 0.01, 0.5)
    Rs = (-1, 0, 0.05, 1)
    totals = (None, 0, 0.02, 2)
    if tier == 'thorough':
        Ts = (None, 0, 0.01, 0.5, 3)
        Rs = (-1, 0, 0.05, 1, 0.3)
        totals = (None, 0, 0.02, 2, 0.4)
    sc = []
    for twin in twins:
        for op in OPS:
            n = frames_of(op, twin)[1]
            for k in range(n):
                for stl in stalls(tier):
                    awaited = frames_of(op, twin)[2][k]
                    if stl['kind'] in ('wrte', 'wrte0') and not (awaited == b'OKAY' or (awaited == b'CLSE' and op in ('list', 'stat', 'pull', 'pull-cb', 'push1', 'push3'))):
                        continue      # a WRTE where data may still come (shell output) is progress, not a stall
                    for T in Ts:
                        for R in Rs:
                            for total in (totals if op in HAS_TOTAL else (None,)):
                                if tier == 'quick' and twin == 'async' and (T, R) not in ((None, 0.05), (0.01, 1), (0.5, 0.05), (0, 0)):
                                    continue
                                sc.append(dict(stl, op=op, twin=twin, k=k, T=T, R=R, total=total))
                                if T is None and stl['kind'] in ('silence', 'other') and R > 0:
                                    sc.append(dict(stl, op=op, twin=twin, k=k, T=T, R=R, total=total, D=30))      # a large device-level default, no per-call transport timeout
    out = [Part('stream-ops', sc, run_stall, what='stream operations: every awaited packet x stall kind x timeout grid', bound='%d stalls' % len(sc), exhaustive=(tier == 'thorough'))]
    sc = []
    for twin in twins:
        for op in CONNECTS:
            n = frames_of(op, twin)[1]
            for k in range(n):
                for stl in stalls(tier):
                    if stl['kind'] in ('wrte', 'wrte0'):
                        continue
                    for T in Ts:
                        for R in Rs:
                            for auth in (0.05, 1):
                                sc.append(dict(stl, op=op, twin=twin, k=k, T=T, R=R, auth=auth))
    out.append(Part('connect', sc, run_stall, what='connect(): every awaited reply x stall kind x timeout grid', bound='%d stalls' % len(sc)))
    sc = [{'op': op, 'twin': t, 'T': T, 'R': R, 'after': a} for op in ('list', 'stat', 'pull', 'pull-cb') for t in twins for T in (None, 0.01, 0.5) for R in (0.05, 1) for a in (0, 1, 2)]
    out.append(Part('sync-service-stalls', sc, run_service_stall, what='the sync service stops answering after 0..2 records of its reply while the stream layer stays alive (CLSE is still answered)',
                    bound='%d cases' % len(sc), min_outcomes=1))
    sc = [{'op': op, 'twin': t, 'T': T, 'R': R, 'total': total} for op in ('shell', 'exec_out', 'root') for t in twins for T in Ts for R in Rs for total in totals if total is not None]
    sc += [dict(x, empty=True) for x in sc]        # the same with zero-length writes (a keep-alive that carries no data)
    out.append(Part('endless-output', sc, run_endless, what='a command whose output never ends: the whole-command limit must end it', bound='%d cases' % len(sc), min_outcomes=1))
    return out
