"""C12 -- any transport failure leaves the device object recoverable."""
from .. import oracle, scen
from ..chooser import FixedChooser
from ..harness import Session
from ..runner import Part

PROPERTY = 'C12'
LEVEL = 'fault_enumeration'
EPS = 0.001
KW = {'transport_timeout_s': 0.1, 'read_timeout_s': 0.2}
RULE = ('scenario connect, a streaming_shell left suspended after its first item (so its packets get parked), shell, stat, list, pull, push (2 WRTE), streaming_shell, rest of the suspended stream; a fault {timeout exception once, sticky connection reset, sticky end-of-stream} injected at EVERY index of the '
        'transport-call sequence (connect / bulk_read / bulk_write), then (close | nothing), connect to a healthy device and the whole scenario again; the same single faults over two more scenarios (a handshake through the public-key offer; a directory push whose files must all arrive whenever push returns normally); pairs: a second fault at every index of the '
        'recovery pass (quick: every 4th index, stated cap); single faults also over a transport that splits every block in two (faults inside headers and payloads) and with the broken session\'s undelivered packets arriving after the next CNXN; both twins; oracle: each call raises or returns the solo result, never a wrong value; afterwards no internal lock is held, close() and '
        'connect() complete under the call watchdog, the packet store is empty after connect(), the replayed scenario returns the solo results and the model filesystem receives the right file; '
        'the device wire order between the suspended stream and the running one is a budgeted choice (<=1 deviation for single faults); non-trivial = every case; distinct = distinct (fault indices, kinds, close?, twin, choices)')
ASSUMPTIONS = ['adbsim device model; a new connection carries no stale bytes (as a new TCP connection does)', 'lock state is read from the object\'s Lock attributes after each pass']


DIRFILES = {'a.txt': scen.push_data(3000), 'b.bin': scen.push_data(100)[::-1], 'c.txt': b''}
CON_PUB = {'_sim': {'auth': {'first': 'token', 'sig': 'token', 'pub': 'cnxn'}}, '_keys': [0], 'auth_timeout_s': 0.3}


def ops(opset='std'):
    if opset == 'dirpush':
        return [('push', ('dir', DIRFILES, 'elsewhere'), '/dir', dict(KW, mtime=7)), ('stat', '/f', dict(KW))]
    if opset == 'auth':
        return [('shell', 'c', dict(KW, decode=False)), ('stat', '/f', dict(KW))]
    return [('gen-start', 'other', dict(KW, decode=False)), ('shell', 'c', dict(KW, decode=False)), ('stat', '/f', dict(KW)), ('list', '/d', dict(KW)), ('pull', '/f', 'bytesio', dict(KW)),
            ('push', ('bytes', scen.push_data(5000)), '/g', dict(KW, mtime=7)), ('streaming_shell', 'c', dict(KW, decode=False)), ('gen-rest', 0)]


CFG = scen.ops_cfg('two', 4096)
CFG['shell'] = dict(CFG['shell'])
CFG['shell'][b'shell:other'] = [b'other-1', b'other-2', b'other-3']
_SOLO = {}


def con_kw(opset):
    return dict(KW, **CON_PUB) if opset == 'auth' else dict(KW)


def solo(twin, policy=None, opset='std'):
    key = (twin, policy, opset)
    if key not in _SOLO:
        cfg = dict(CFG)
        if policy:
            cfg['frag_policy'] = policy
        s = Session(FixedChooser(), cfg, twin=twin, eps=EPS)
        try:
            res = [s.op(('connect', con_kw(opset)))] + [s.op(o) for o in ops(opset)]
            assert all(r[0] == 'ok' for r in res), res
            _SOLO[key] = (res, s.env.calls)
        finally:
            s.finish()
    return _SOLO[key]


def locks_of(dev):
    from ..harness import find_locks
    return {k: v.locked() for k, v in find_locks(dev, dev._io_manager).items()}


def run_fault(params, ch):
    twin = params['twin']
    opset = params.get('opset', 'std')
    want, ncalls = solo(twin, params.get('policy'), opset)
    cfg = dict(CFG)
    cfg['faults'] = {int(k): v for k, v in params['faults']}
    if params.get('policy'):
        cfg['frag_policy'] = params['policy']
    if params.get('stale'):
        cfg['carry_stale'] = True
    s = Session(ch, cfg, twin=twin, eps=EPS, max_calls=40000, order_budgeted=True)
    try:
        viol = []
        passes = 0
        raised = []
        ok = False
        while passes < len(params['faults']) + 2:
            passes += 1
            calls0 = s.env.calls
            sends0 = len(s.env.fs.sends)
            r = s.op(('connect', con_kw(opset)))
            results = [r]
            del s.gens[:]
            if r == ('ok', True):
                try:
                    n = len(s.dev._io_manager._packet_store)
                    if n:
                        viol.append({'msg': 'pass %d: packet store holds %d stream(s) right after connect()' % (passes, n)})
                except AttributeError:
                    pass
                for i, o in enumerate(ops(opset)):
                    r = s.op(o)
                    results.append(r)
                    if r[0] != 'ok':
                        break
                    if opset == 'dirpush' and o[0] == 'push':
                        got = sorted((x[0], x[3]) for x in s.env.fs.sends[sends0:])
                        exp = sorted((('/dir/%s' % n).encode(), d) for n, d in DIRFILES.items())
                        if got != exp:
                            viol.append({'msg': 'pass %d: push of a directory returned normally but the device received %r instead of %r (faults %r)' % (
                                passes, [(p, len(d)) for p, d in got], [(p, len(d)) for p, d in exp], params['faults'])})
            # every call either raised or returned the solo value
            for i, r in enumerate(results):
                if r[0] == 'ok' and r != want[i]:
                    viol.append({'msg': 'pass %d: call %d returned %r, the solo result is %r (faults %r)' % (passes, i, r, want[i], params['faults'])})
                elif r[0] in ('hang', 'watchdog', 'deadlock'):
                    viol.append({'msg': 'pass %d: call %d never finished: %r (faults %r)' % (passes, i, r, params['faults'])})
            lk = locks_of(s.dev)
            if any(lk.values()):
                viol.append({'msg': 'pass %d: lock(s) still held after the calls returned: %r (faults %r)' % (passes, [k for k, v in lk.items() if v], params['faults'])})
            if len(results) == len(want) and all(r[0] == 'ok' for r in results):
                ok = True
                break
            raised.append((len(results) - 1, results[-1][1] if results[-1][0] == 'exc' else results[-1][0]))
            if not any(calls0 <= int(k) < s.env.calls for k, _kind in params['faults']) and not viol:
                # no fault was injected during this pass: the device is healthy and the object was (re)connected, so the failure comes
                # from state that survived the broken session
                viol.append({'msg': 'pass %d failed at call %d with %r although no fault was injected during it (faults %r fired in earlier passes): state of the broken session survived the reconnect'
                                    % (passes, len(results) - 1, results[-1][:3], params['faults'])})
            if any(lk.values()) or results[-1][0] in ('hang', 'watchdog', 'deadlock'):
                break
            if params['close']:
                rc = s.op(('close',))
                if rc != ('ok', None):
                    viol.append({'msg': 'close() after a failed call gave %r' % (rc,)})
                if s.dev.available:
                    viol.append({'msg': 'available is True after close()'})
        if not ok and not viol:
            viol.append({'msg': 'scenario never succeeded after %d passes although all faults were consumed (faults %r, failures %r)' % (passes, params['faults'], raised)})
        if ok and opset == 'std':
            last = s.env.fs.sends[-1] if s.env.fs.sends else None
            if not last or last[0] != b'/g' or last[3] != scen.push_data(5000):
                viol.append({'msg': 'after recovery the device filesystem received %r' % (last and (last[0], len(last[3])),)})
        viol += [{'msg': '%s: %s' % i} for i in s.env.issues if i[0] in ('dup-id',)]   # after a fault in mid-packet the broken session is desynchronised by definition
        return {'outcome': (tuple(raised), passes, ok), 'viol': viol, 'nontrivial': (tuple(map(tuple, params['faults'])), params['close'], twin, tuple(ch.choices)),
                'sample': {'faults': params['faults'], 'close_before_reconnect': params['close'], 'twin': twin, 'failed_calls': raised, 'passes': passes, 'recovered': ok},
                'trans': s.env.calls}
    finally:
        s.finish()


KINDS = ('timeout', 'reset', 'eof', 'halfclose')


def parts(tier):
    twins = ('sync', 'async')
    out = []
    sc = []
    for t in twins:
        n = solo(t)[1]
        for k in range(n):
            for kind in KINDS:
                for close in (True, False):
                    sc.append({'twin': t, 'faults': [[k, kind]], 'close': close})
    out.append(Part('single-faults', sc, run_fault, {'dev-order': 1}, what='one fault at every transport-call index x 4 kinds (timeout, reset, end-of-stream, half-closed connection that still accepts writes) x close/no close x <=1 deviation of the device wire order', bound='%d (index, kind, close, twin) cases' % len(sc)))
    sc = []
    for t in twins:
        n = solo(t, 'half')[1]
        for k in range(n):
            for kind in KINDS:
                sc.append({'twin': t, 'faults': [[k, kind]], 'close': k % 2 == 0, 'policy': 'half'})
    out.append(Part('single-faults-short-reads', sc, run_fault, {'dev-order': 0}, what='the same with a transport that delivers every block in two pieces, so that faults also fall inside headers and payloads',
                    bound='%d cases' % len(sc)))
    sc = []
    for t in twins:
        n = solo(t)[1]
        for k in range(n):
            for kind in ('timeout', 'reset'):
                for close in (True, False):
                    sc.append({'twin': t, 'faults': [[k, kind]], 'close': close, 'stale': True})
    out.append(Part('single-faults-stale-packets', sc, run_fault, {'dev-order': 0}, what='whole packets of the broken session are delivered after the CNXN of the next session (unflushed pipe / slow device)',
                    bound='%d cases' % len(sc)))
    for opset, what in (('auth', 'a connect() that goes through signature rejection and the public-key offer, then shell and stat'), ('dirpush', 'a push of a directory of three files, then stat')):
        sc = []
        for t in twins:
            n = solo(t, None, opset)[1]
            for k in range(n):
                for kind in KINDS:
                    sc.append({'twin': t, 'faults': [[k, kind]], 'close': k % 2 == 0, 'opset': opset})
        out.append(Part('single-faults-%s' % opset, sc, run_fault, {'dev-order': 0}, what='one fault at every transport-call index x 4 kinds for another scenario: %s' % what, bound='%d cases' % len(sc)))
    sc = []
    step = 4 if tier == 'quick' else 1
    for t in twins:
        n = solo(t)[1]
        for k1 in range(0, n, 1 if tier == 'thorough' else 3):
            for kind1 in KINDS:
                # the recovery pass starts after the failing call; its indices continue the global call counter
                for k2 in range(k1 + 1, k1 + n + 6, step):
                    for kind2 in (KINDS if tier == 'thorough' else ('timeout', 'reset')):
                        sc.append({'twin': t, 'faults': [[k1, kind1], [k2, kind2]], 'close': (k1 + k2) % 2 == 0})
    out.append(Part('fault-pairs', sc, run_fault, what='a second fault during the recovery pass', bound='%d pairs%s' % (len(sc), ' (every 3rd first index x every 4th second index: stated cap)' if tier == 'quick' else ''),
                    exhaustive=(tier == 'thorough')))
    return out
