"""C13 -- nothing is sent unless connected; `available` tracks the connection truthfully."""
import os

from .. import oracle, scen
from ..harness import Session, tmpdir
from ..runner import Part

PROPERTY = 'C13'
LEVEL = 'model_checking'
RULE = ('every sequence of <=k symbols over {connect-ok, connect-fail x {no keys, non-token challenge, silent device, transport connect error, device that answers the public key with another challenge}, close, shell, exec_out, '
        'root, reboot, streaming_shell, creating a streaming_shell generator, draining a generator created earlier, starting a streaming_shell and leaving it suspended, abandoning the most recent suspended one, list, stat, pull->existing path, pull->fresh path, pull->BytesIO, push, a push the device rejects, a pull of a missing file, shell with a blank command, pull into a directory that does not exist, and list/stat/pull/push with an empty path, given positionally or by keyword} on one object, both twins, executed on '
        'the real device class; reference = the availability machine (True after connect-ok, False after close / any connect attempt that fails); oracle: operation '
        'while unavailable raises AdbConnectionError, empty path raises DevicePathInvalidError, in both cases zero bytes written to the transport and no local file '
        'created; `available` equals the machine flag after every step; operations while available return the model\'s ground truth. States = (machine flag, transport '
        'connected, packets parked, device session alive) reached; non-trivial = sequence contains a guarded operation; distinct = distinct symbol sequence x twin')
ASSUMPTIONS = ['adbsim is a faithful adbd model', 'sequences longer than the bound are not explored (no state abstraction is used to extend the bound)']

CONNECTS = {
    'connect-ok': {},
    'connect-ok-latin1': {'_sim': {'banner': b'device::ro.product.name=sim;ro.product.model=Caf\xe9 One;features=shell_v2\0'}},     # the banner is opaque bytes
    'fail-nokeys': {'_sim': {'auth': {'first': 'token', 'sig': 'token', 'pub': 'never'}}},
    'fail-nontoken': {'_sim': {'auth': {'first': 'nontoken', 'sig': 'token', 'pub': 'never'}}, '_keys': [0]},
    'fail-silent': {'_sim': {'auth': {'first': 'silent'}}, 'transport_timeout_s': 0.5, 'read_timeout_s': 0.5},
    'fail-transport': {'_sim': {'connect_error': 'refused'}},
    'fail-rechallenge': {'_sim': {'auth': {'first': 'token', 'sig': 'token', 'pub': 'token'}}, '_keys': [0], 'transport_timeout_s': 0.5, 'read_timeout_s': 0.5, 'auth_timeout_s': 1.0},
}
FAIL_EXC = {'fail-nokeys': 'DeviceAuthError', 'fail-nontoken': 'InvalidResponseError', 'fail-silent': ('AdbTimeoutError', 'TcpTimeoutException'),
            'fail-transport': 'ConnectionRefusedError', 'fail-rechallenge': ('AdbTimeoutError', 'TcpTimeoutException')}
OPS = ['shell', 'exec_out', 'root', 'reboot', 'streaming_shell', 'list', 'stat', 'pull', 'pull-path', 'pull-newpath', 'push', 'stream-drain', 'push-rejected', 'pull-missing', 'shell-blank', 'pull-newdir', 'stream-start']
BLANK = ['', '  ', '\n']
NEUTRAL = ['stream-create', 'stream-abandon']
EMPTY = ['list-empty', 'stat-empty', 'pull-empty', 'push-empty', 'push-dir-empty', 'list-empty-kw', 'stat-empty-kw', 'pull-empty-kw', 'push-empty-kw']
ALPHABET = list(CONNECTS) + ['close'] + OPS + EMPTY + NEUTRAL


def op_for(sym, i):
    if sym in scen.OPS8:
        return scen.op_tuple(sym)
    if sym == 'reboot':
        return ('reboot',)
    if sym == 'pull-path':
        return ('pull', '/f', 'path')
    if sym == 'pull-newpath':
        return ('pull', '/f', 'newpath')
    if sym == 'stream-drain':
        return ('gen-drain',)
    if sym == 'push-rejected':
        return ('push', ('bytes', b'zz' * 10), '/ro/x', {'mtime': 3})
    if sym == 'pull-missing':
        return ('pull', '/missing', 'bytesio')
    if sym == 'shell-blank':
        return ('shell', BLANK[i % 3], {'decode': False})
    if sym == 'pull-newdir':
        return ('pull', '/f', 'newdir')
    if sym == 'stream-start':
        return ('gen-start', 'c', {'decode': False})
    e = ['', b'', None][i % 3]
    if sym == 'push-dir-empty':
        return ('push', ('dir', {'a': b'x' * 10} if i % 2 else {}, 'elsewhere'), ['', b''][i % 2])
    e2 = ['', b''][i % 2]
    return {'list-empty': ('list', e), 'stat-empty': ('stat', e), 'pull-empty': ('pull', e, 'path'),
            'push-empty': ('push', ('bytes', b'zz'), e),
            'list-empty-kw': ('list', e2, {'_kwpath': True}), 'stat-empty-kw': ('stat', e2, {'_kwpath': True}), 'pull-empty-kw': ('pull', e2, 'bytesio', {'_kwpath': True}),
            'push-empty-kw': ('push', ('bytes', b'zz'), e2, {'_kwpath': True})}[sym]


def run_seq(params, ch):
    cfg = scen.ops_cfg()
    cfg['ro_prefix'] = b'/ro/'
    s = Session(ch, cfg, twin=params['twin'])
    try:
        flag = False
        viol = []
        states = []
        guarded = False
        for i, sym in enumerate(params['seq']):
            env = s.env
            hb, wc = env.host_bytes, env.write_calls
            files_before = sorted(os.listdir(tmpdir()))
            if sym in CONNECTS:
                r = s.op(('connect', dict(CONNECTS[sym])))
                if sym in ('connect-ok', 'connect-ok-latin1'):
                    flag = True
                    if r != ('ok', True):
                        viol.append({'msg': 'step %d connect to a healthy device gave %r' % (i, r)})
                else:
                    flag = False
                    want = FAIL_EXC[sym]
                    if r[0] != 'exc' or (r[1] not in want if isinstance(want, tuple) else r[1] != want):
                        viol.append({'msg': 'step %d %s gave %r, expected %s' % (i, sym, r[:2], want)})
            elif sym == 'close':
                r = s.op(('close',))
                flag = False
                if r != ('ok', None):
                    viol.append({'msg': 'step %d close gave %r' % (i, r)})
            elif sym == 'stream-create':
                r = s.op(('gen-create', 'c', {'decode': False}))
                if env.host_bytes != hb or env.write_calls != wc:
                    viol.append({'msg': 'step %d creating a streaming_shell generator wrote to the transport' % i})
            elif sym == 'stream-abandon':
                # the caller drops a streaming_shell generator it had started (explicit close / garbage collection): whatever that does while
                # connected, it must not put a single byte on the transport of a device that is not connected
                r = ('ok', 'no-generator')
                if s.gens:
                    g = s.gens.pop()
                    r = s.run((lambda d: g.close()) if params['twin'] == 'sync' else (lambda d: g.aclose()))
                if not flag and (env.host_bytes != hb or env.write_calls != wc):
                    viol.append({'msg': 'step %d: abandoning a started streaming_shell generator on an unavailable device made %d write call(s) (%d bytes accepted) on the transport' % (i, env.write_calls - wc, env.host_bytes - hb)})
            elif sym == 'stream-drain' and getattr(s, 'lazy', None) is None:
                r = ('ok', 'no-generator')
            else:
                guarded = True
                r = s.op(op_for(sym, i))
                wrote = env.host_bytes - hb or env.write_calls - wc
                created = sorted(os.listdir(tmpdir())) != files_before
                if sym in EMPTY:
                    ok_exc = ('DevicePathInvalidError',) if flag else ('DevicePathInvalidError', 'AdbConnectionError')   # both conditions hold: either is documented
                    if r[0] != 'exc' or r[1] not in ok_exc:
                        viol.append({'msg': 'step %d %s (available=%s) gave %r, expected DevicePathInvalidError' % (i, sym, flag, r[:2])})
                    if wrote or created:
                        viol.append({'msg': 'step %d %s wrote to the transport or created a local file' % (i, sym)})
                elif not flag:
                    if r[:2] != ('exc', 'AdbConnectionError'):
                        viol.append({'msg': 'step %d %s on an unavailable device gave %r, expected AdbConnectionError' % (i, sym, r[:2])})
                    if wrote:
                        viol.append({'msg': 'step %d %s on an unavailable device wrote %d bytes to the transport' % (i, sym, env.host_bytes - hb)})
                    if created or (sym == 'pull-newdir' and s.pull_dir_created):
                        viol.append({'msg': 'step %d %s on an unavailable device created a local file or directory' % (i, sym)})
                    if sym == 'pull-newpath' and s.pull_file_state != 'absent':
                        viol.append({'msg': 'step %d pull on an unavailable device created the local destination file' % i})
                    if sym == 'pull-path' and s.pull_file_state != 'stale':
                        viol.append({'msg': 'step %d pull on an unavailable device touched the existing local destination file (%s)' % (i, s.pull_file_state)})
                else:
                    if sym == 'reboot':
                        want = ('ok', None)
                    elif sym in ('pull-path', 'pull-newpath'):
                        want = ('ok', scen.FILE_F)
                    elif sym == 'stream-drain':
                        want = scen.op_expected('streaming_shell', cfg)
                    elif sym == 'push-rejected':
                        want = ('exc', 'PushFailedError')
                        r = r[:2]
                    elif sym == 'pull-missing':
                        want = ('exc', 'AdbCommandFailureException')
                        r = r[:2]
                    elif sym == 'shell-blank':
                        want = ('ok', b'out:' + BLANK[i % 3].encode())
                    elif sym == 'stream-start':
                        want = ('ok', scen.op_expected('streaming_shell', cfg)[1][0])
                    elif sym == 'pull-newdir':
                        want = r           # connected: whether a missing local directory is an error is not C13's business
                    else:
                        want = scen.op_expected(sym, cfg)
                    if r != want:
                        viol.append({'msg': 'step %d %s on a connected device gave %r, expected %r' % (i, sym, r, want)})
            av = s.dev.available
            if av is not flag:
                viol.append({'msg': 'after step %d (%s) available is %r, the connection machine says %r' % (i, sym, av, flag)})
            try:
                parked = len(s.dev._io_manager._packet_store)
            except Exception:  # pylint: disable=broad-except
                parked = -1
            states.append((flag, env.connected, parked > 0, env.dev is not None and env.dev.online))
        viol += [{'msg': '%s: %s' % i} for i in s.env.issues if i[0] in ('frame', 'overread', 'okay', 'open', 'dup-id')]
        return {'outcome': tuple(states), 'viol': viol, 'states': states, 'trans': len(params['seq']),
                'nontrivial': (tuple(params['seq']), params['twin']) if guarded else None,
                'sample': {'seq': params['seq'], 'twin': params['twin'], 'states': [list(map(int, x)) for x in states]}}
    finally:
        s.finish()


def run_close_race(params, ch):
    """asyncio: one task has called close() (or connect()) and is waiting for the transport while another task starts an operation:
    the operation must be refused without a byte being written, whatever the order in which the transport completes things."""
    from .. import vloop
    cfg = scen.ops_cfg()
    s = Session(ch, cfg, twin='async')
    try:
        s.op(('connect',))
        loop = s.loop
        loop._explore_io = True
        s.env.sched = loop
        hb = s.env.host_bytes
        seen = {}

        async def closer():
            await (s.dev.close() if params['first'] == 'close' else s.dev.connect(**{'_x': 0} and {}))
            return ('ok', None)

        async def user():
            seen['available_at_start'] = s.dev.available
            seen['bytes_at_start'] = s.env.host_bytes
            try:
                if params['op'] == 'shell':
                    return ('ok', await s.dev.shell('c', decode=False))
                return ('ok', tuple(await s.dev.stat('/f')))
            except Exception as e:  # pylint: disable=broad-except
                return ('exc', type(e).__name__)
        viol = []
        try:
            tasks = loop.drive(closer(), user())
            res = [t.result() for t in tasks]
        except vloop.Deadlock as e:
            res = [('deadlock',), ('deadlock',)]
            viol.append({'msg': 'deadlock: %s' % e})
        loop._explore_io = False
        s.env.sched = None
        if params['first'] == 'close':
            # the user task starts after close() was called (tasks start in creation order): it must be refused and write nothing
            if seen.get('available_at_start') is not False:
                viol.append({'msg': 'available is %r after close() has been called (the transport close is still in progress)' % (seen.get('available_at_start'),)})
            if res[1][:2] != ('exc', 'AdbConnectionError'):
                viol.append({'msg': '%s started after close() was called gave %r' % (params['op'], res[1])})
            if s.env.host_bytes != seen.get('bytes_at_start', hb):
                viol.append({'msg': '%s started after close() was called wrote %d bytes to the transport' % (params['op'], s.env.host_bytes - seen.get('bytes_at_start', hb))})
        return {'outcome': (res[0][0], res[1][:2]), 'viol': viol, 'nontrivial': (params['first'], params['op'], tuple(ch.choices)), 'states': [(seen.get('available_at_start'),)], 'trans': loop.steps,
                'sample': dict(params, results=[r[:2] for r in res])}
    finally:
        s.env.sched = None
        s.finish()


def seqs(alpha, k):
    out = []
    lvl = [()]
    for _ in range(k):
        lvl = [p + (a,) for p in lvl for a in alpha]
        out += lvl
    return out


def parts(tier):
    k = 3 if tier == 'quick' else 4
    sc = [{'seq': list(q), 'twin': t} for q in seqs(ALPHABET, k) for t in ('sync', 'async')]
    out = [Part('sequences', sc, run_seq, what='all symbol sequences of length <=%d over the %d-symbol alphabet' % (k, len(ALPHABET)), bound='length <= %d' % k)]
    small = ['connect-ok', 'fail-nokeys', 'close', 'shell', 'pull-newpath', 'push', 'stream-create', 'stream-drain']
    d = 5 if tier == 'quick' else 6
    sc = [{'seq': list(q), 'twin': t} for q in seqs(small, d) if len(q) == d for t in ('sync', 'async')]
    out.append(Part('deep-sequences', sc, run_seq, what='all sequences of length exactly %d over a reduced 8-symbol alphabet' % d, bound='length %d, 8 symbols' % d))
    life = ['connect-ok', 'fail-nokeys', 'close', 'stream-start', 'stream-abandon', 'stream-create', 'stream-drain']
    sc = [{'seq': list(q), 'twin': t} for q in seqs(life, d) if len(q) >= 4 for t in ('sync', 'async')]
    out.append(Part('stream-lifecycle-sequences', sc, run_seq, what='all sequences of length 4..%d over the 7 symbols that create, start, drain and abandon streaming_shell generators around connect/close' % d,
                    bound='length 4..%d, 7 symbols' % d))
    out.append(Part('close-race-async', [{'first': 'close', 'op': o} for o in ('shell', 'stat')], run_close_race, {'io-order': None, 'dev-order': None}, min_outcomes=1,
                    what='asyncio: an operation started while another task is inside close(): every I/O completion order', bound='complete'))
    return out
