"""C14 -- stream ids are non-zero, 32-bit and unique among live streams."""
from .. import monitor, vloop
from ..common import HarnessError
from ..harness import Session
from ..runner import Part
from ..sched import SchedLock, Scheduler, current_task

PROPERTY = 'C14'
LEVEL = 'model_checking'
STARTS = [0, 1, 2**32 - 3, 2**32 - 2, 2**32 - 1]
RULE = ('2 (thorough 3) threads each open a stream that stays live (a streaming_shell whose service never finishes), id counter started at 0, 1, 2^32-3, 2^32-2, 2^32-1; scheduling points '
        'before every LINE (thorough: every bytecode) of AdbDevice._open and _AdbTransactionInfo.__init__, at every lock acquire/release and transport call; all schedules up to the preemption '
        'bound; asyncio: 2-3 tasks under every I/O completion order; sequential histories of 6 opens across the wrap with all streams live; an open that the device refuses and that fails while another open overlaps it, followed by a third open; oracle: every OPEN arg0 in [1, 2^32-1], no OPEN reuses '
        'an id that is live in the protocol monitor, every open returns its own first payload; non-trivial = at least one preemption / I/O-order deviation or a counter start at the wrap; '
        'distinct = distinct (start, threads, choice list)')
ASSUMPTIONS = ['adbsim device model', 'a stream held open across 2^32 opens is not reachable by any feasible history and not claimed', 'sequential consistency at line/bytecode granularity (CPython GIL)']
CFG = {'shell': {b'shell:hold0': [b'h0'], b'shell:hold1': [b'h1'], b'shell:hold2': [b'h2'], b'shell:hold3': [b'h3'], b'shell:hold4': [b'h4'], b'shell:hold5': [b'h5']},
       'hold': [b'shell:hold%d' % i for i in range(6)]}


def judge(s, results, n, viol, same=False):
    env = s.env
    opens = [p for w, p in env.events if w == 'H' and p.cmd == b'OPEN']
    ids = [p.a0 for p in opens]
    for p in opens:
        if not 1 <= p.a0 <= 0xFFFFFFFF:
            viol.append({'msg': 'OPEN with local id %d (start %r)' % (p.a0, ids)})
    if len(set(ids)) != len(ids):
        viol.append({'msg': 'two simultaneously open streams share a local id: OPEN ids %r' % (ids,)})
    for code, msg in env.issues:
        viol.append({'msg': '%s: %s' % (code, msg)})
    mon, _ = monitor.check(env.events, completed=False)
    viol += [{'msg': 'stream monitor %s: %s' % m} for m in mon]
    for i, r in enumerate(results):
        if r != ('ok', b'h%d' % (0 if same else i)):
            viol.append({'msg': 'open %d returned %r, expected its own first payload' % (i, r)})
    return ids


def codes():
    import adb_shell.adb_device as ad
    import adb_shell.hidden_helpers as hh
    return [ad.AdbDevice._open.__code__, hh._AdbTransactionInfo.__init__.__code__]


_WARM = set()


def run_threads(params, ch):
    n = params['n']
    key = (params.get('opcodes', False), n)
    if key not in _WARM:
        # the interpreter installs line/opcode instrumentation lazily the first time a code object is traced in a process;
        # one throw-away execution makes every explored execution see the same event stream
        _WARM.add(key)
        from ..chooser import FixedChooser
        run_threads(params, FixedChooser())
    s = Session(ch, CFG, twin='sync', lock_factory=SchedLock, max_calls=5000)
    try:
        if s.op(('connect',)) != ('ok', True):
            raise HarnessError('connect failed')
        s.dev._local_id = params['start']
        sc = Scheduler(ch, max_steps=20000, trace_codes=codes(), opcodes=params.get('opcodes', False))
        io = s.dev._io_manager
        from ..harness import find_locks
        sc.locks = list(find_locks(s.dev, io).values())
        s.env.sched = sc
        for i in range(n):
            kw = {'decode': False}
            if params.get('timeouts'):
                kw.update(transport_timeout_s=[0.05, 0][i % 2], read_timeout_s=5.0)
            sc.spawn(lambda i=i, kw=kw: s.op(('gen-start', 'hold%d' % (0 if params.get('same') else i), dict(kw))), name='open%d' % i)
        results = sc.run()
        s.env.sched = None
        if sc.verdict and sc.verdict.startswith('error'):
            raise HarnessError(sc.verdict)
        viol = []
        if sc.verdict:
            viol.append({'msg': 'scheduler verdict: %s' % sc.verdict})
        ids = judge(s, results, n, viol, bool(params.get('same')))
        dev = [c for c in ch.choices if c]
        return {'outcome': (tuple(sorted(ids)), tuple(r[0] for r in results)), 'viol': viol, 'states': sc.states, 'trans': sc.steps,
                'nontrivial': (params['start'], n, params.get('opcodes', False), params.get('same'), tuple(ch.choices)) if (dev or params['start'] > 1) else None,
                'sample': {'start': params['start'], 'threads': n, 'open_ids': ids, 'scheduling_points': sc.steps, 'preemptions': sc.preemptions}}
    finally:
        s.env.sched = None
        s.finish()


def run_failed_overlap(params, ch):
    """One open is refused by the device (CLSE instead of OKAY) and fails while another open overlaps it; a third open follows.
    The ids of the two streams that stay live must differ, whatever the interleaving."""
    key = ('overlap', 2, bool(params.get('late')))
    if key not in _WARM:
        _WARM.add(key)
        from ..chooser import FixedChooser
        run_failed_overlap(params, FixedChooser())
    cfg = dict(CFG)
    cfg['reject_open'] = [b'shell:reject']
    if params.get('late'):
        cfg['reject_delays'] = (0.2, 0.35)       # the second (duplicate) refusal arrives after the read timeout: the open fails on the library's own deadline
    s = Session(ch, cfg, twin='sync', lock_factory=SchedLock, max_calls=5000)
    try:
        if s.op(('connect',)) != ('ok', True):
            raise HarnessError('connect failed')
        s.dev._local_id = params['start']
        sc = Scheduler(ch, max_steps=20000, trace_codes=codes())
        io = s.dev._io_manager
        from ..harness import find_locks
        sc.locks = list(find_locks(s.dev, io).values())
        s.env.sched = sc
        tmo = 0.3 if params.get('late') else 0.5
        sc.spawn(lambda: s.op(('shell', 'reject', {'decode': False, 'transport_timeout_s': tmo, 'read_timeout_s': tmo})), name='refused')
        sc.spawn(lambda: s.op(('gen-start', 'hold0', {'decode': False})), name='open0')
        results = sc.run()
        s.env.sched = None
        if sc.verdict and sc.verdict.startswith('error'):
            raise HarnessError(sc.verdict)
        r3 = s.op(('gen-start', 'hold1', {'decode': False}))
        viol = []
        if sc.verdict:
            viol.append({'msg': 'scheduler verdict: %s' % sc.verdict})
        opens = [(p.a0, p.data) for w, p in s.env.events if w == 'H' and p.cmd == b'OPEN']
        live = [i for i, d in opens if d.startswith(b'shell:hold')]
        for i, _d in opens:
            if not 1 <= i <= 0xFFFFFFFF:
                viol.append({'msg': 'OPEN with local id %d' % i})
        if len(set(live)) != len(live):
            viol.append({'msg': 'two live streams share local id: OPENs %r' % (opens,)})
        for code, msg in s.env.issues:
            if code in ('dup-id', 'open', 'frame'):
                viol.append({'msg': '%s: %s' % (code, msg)})
        if results[0][0] != 'exc':
            viol.append({'msg': 'harness: the refused open was expected to fail, got %r' % (results[0],)})
        if results[1] != ('ok', b'h0') or r3 != ('ok', b'h1'):
            viol.append({'msg': 'opens returned %r and %r, expected their own first payloads' % (results[1], r3)})
        dev = [c for c in ch.choices if c]
        return {'outcome': (tuple(i for i, _ in opens), results[0][:2]), 'viol': viol, 'states': sc.states, 'trans': sc.steps,
                'nontrivial': (params['start'], 'overlap', tuple(ch.choices)) if (dev or params['start'] > 1) else None,
                'sample': {'start': params['start'], 'open_ids': [i for i, _ in opens], 'refused_open': results[0][:2], 'scheduling_points': sc.steps}}
    finally:
        s.env.sched = None
        s.finish()


def run_reconnect_overlap(params, ch):
    """One thread opens a stream while another thread closes the connection (optionally), connects again and opens a stream of its
    own.  An OPEN that was prepared before the reconnect may reach the new connection: whatever the interleaving, the streams that
    are open on one connection have different ids."""
    key = ('reconnect', params['close'])
    if key not in _WARM:
        _WARM.add(key)
        from ..chooser import FixedChooser
        run_reconnect_overlap(params, FixedChooser())
    s = Session(ch, CFG, twin='sync', lock_factory=SchedLock, max_calls=5000)
    try:
        if s.op(('connect',)) != ('ok', True):
            raise HarnessError('connect failed')
        s.dev._local_id = params['start']
        for i in range(params['before']):
            s.op(('gen-start', 'hold%d' % (5 - i), {'decode': False}))
        sc = Scheduler(ch, max_steps=20000, trace_codes=codes())
        io = s.dev._io_manager
        from ..harness import find_locks
        sc.locks = list(find_locks(s.dev, io).values())
        s.env.sched = sc
        kw = {'decode': False, 'transport_timeout_s': 0.5, 'read_timeout_s': 0.5}

        def recon():
            out = []
            if params['close']:
                out.append(s.op(('close',)))
            out.append(s.op(('connect',)))
            out.append(s.op(('gen-start', 'hold1', dict(kw))))
            return out
        sc.spawn(lambda: s.op(('gen-start', 'hold0', dict(kw))), name='open0')
        sc.spawn(recon, name='reconnect')
        results = sc.run()
        s.env.sched = None
        if sc.verdict and sc.verdict.startswith('error'):
            raise HarnessError(sc.verdict)
        viol = []
        if sc.verdict:
            viol.append({'msg': 'scheduler verdict: %s' % sc.verdict})
        # streams the device of the LAST connection considers open, by local id
        sess, cur = [], None
        for w, p in s.env.events:
            if w == 'H' and p.cmd == b'CNXN':
                cur = []
                sess.append(cur)
            elif w == 'H' and p.cmd == b'OPEN' and cur is not None:
                cur.append(p.a0)
                if not 1 <= p.a0 <= 0xFFFFFFFF:
                    viol.append({'msg': 'OPEN with local id %d' % p.a0})
        for k, ids in enumerate(sess):
            if len(set(ids)) != len(ids):
                viol.append({'msg': 'connection #%d: two streams that are open at the same time share a local id: OPEN ids %r (thread results %r)' % (k, ids, [r if not isinstance(r, list) else [x[:2] for x in r] for r in results])})
        for code, msg in s.env.issues:
            if code in ('dup-id', 'open'):
                viol.append({'msg': '%s: %s' % (code, msg)})
        dev = [c for c in ch.choices if c]
        flat = tuple(tuple(ids) for ids in sess)
        return {'outcome': (flat,), 'viol': viol, 'states': sc.states, 'trans': sc.steps,
                'nontrivial': (params['start'], params['close'], params['before'], tuple(ch.choices)) if dev else None,
                'sample': dict(params, open_ids_per_connection=[list(x) for x in flat], scheduling_points=sc.steps)}
    finally:
        s.env.sched = None
        s.finish()


def run_tasks(params, ch):
    n = params['n']
    s = Session(ch, CFG, twin='async', max_calls=5000)
    try:
        if s.op(('connect',)) != ('ok', True):
            raise HarnessError('connect failed')
        s.dev._local_id = params['start']
        loop = s.loop
        loop._explore_io = True
        s.env.sched = loop
        gens = []

        async def opener(i):
            g = s.dev.streaming_shell('hold%d' % i, decode=False)
            gens.append(g)
            try:
                return ('ok', await g.__anext__())
            except Exception as e:  # pylint: disable=broad-except
                return ('exc', type(e).__name__, str(e)[:100])
        verdict = None
        try:
            tasks = loop.drive(*[opener(i) for i in range(n)])
            results = [t.result() for t in tasks]
        except vloop.Deadlock as e:
            verdict = str(e)
            results = [('deadlock',)] * n
        loop._explore_io = False
        s.env.sched = None
        s.gens.extend(gens)
        viol = []
        if verdict:
            viol.append({'msg': 'deadlock: %s' % verdict})
        ids = judge(s, results, n, viol)
        dev = [c for c in ch.choices if c]
        return {'outcome': (tuple(sorted(ids)), tuple(r[0] for r in results)), 'viol': viol, 'trans': loop.steps, 'states': [(tuple(sorted(ids)),)],
                'nontrivial': (params['start'], n, 'async', tuple(ch.choices)) if (dev or params['start'] > 1) else None,
                'sample': {'start': params['start'], 'tasks': n, 'open_ids': ids, 'twin': 'async'}}
    finally:
        s.env.sched = None
        s.finish()


def run_seq(params, ch):
    s = Session(ch, CFG, twin=params['twin'])
    try:
        s.op(('connect',))
        s.dev._local_id = params['start']
        results = [s.op(('gen-start', 'hold%d' % i, {'decode': False})) for i in range(6)]
        viol = []
        ids = judge(s, results, 6, viol)
        return {'outcome': tuple(ids), 'viol': viol, 'states': [tuple(ids)], 'trans': 6, 'nontrivial': (params['start'], params['twin']),
                'sample': {'start': params['start'], 'twin': params['twin'], 'open_ids': ids}}
    finally:
        s.finish()


def run_nested(params, ch):
    """Operations that open a stream while a stream of their own is still open (pull with a progress callback issues a stat; a callback that
    itself queries the device; a suspended generator underneath): every OPEN carries an id that no live stream has."""
    from .. import scen
    cfg = scen.ops_cfg('two', 4096)
    cfg['shell'] = dict(cfg['shell'])
    cfg['shell'].update(CFG['shell'])
    cfg['hold'] = CFG['hold']
    s = Session(ch, cfg, twin=params['twin'])
    try:
        s.op(('connect',))
        s.dev._local_id = params['start']
        res = []
        if params['held']:
            res.append(s.op(('gen-start', 'hold0', {'decode': False})))
        res.append(s.op(('pull', '/f', 'bytesio', {'cb': params['cb']})))
        res.append(s.op(('push', ('bytes', scen.push_data(5000)), '/g', {'cb': params['cb'], 'mtime': 7})))
        res.append(s.op(('stat', '/f')))
        viol = []
        mon, _ = monitor.check(s.env.events, completed=False)
        viol += [{'msg': 'stream monitor %s: %s' % m} for m in mon]
        viol += [{'msg': '%s: %s' % i} for i in s.env.issues]
        ids = [p.a0 for w, p in s.env.events if w == 'H' and p.cmd == b'OPEN']
        for i in ids:
            if not 1 <= i <= 0xFFFFFFFF:
                viol.append({'msg': 'OPEN with local id %d' % i})
        if any(r[0] != 'ok' for r in res):
            viol.append({'msg': 'nested operations gave %r' % ([r[:2] for r in res],)})
        return {'outcome': (tuple(ids),), 'viol': viol, 'states': [tuple(ids)], 'trans': len(ids), 'nontrivial': tuple(sorted((k, str(v)) for k, v in params.items())),
                'sample': dict(params, open_ids=ids)}
    finally:
        s.finish()


def parts(tier):
    out = _parts(tier)
    if tier == 'thorough':
        for p in out:
            p.deadline_s = 2400
    return out


def _parts(tier):
    pb = 2 if tier == 'quick' else 3
    out = [Part('threads-2-lines', [{'start': st, 'n': 2} for st in STARTS] + [{'start': st, 'n': 2, 'same': True} for st in (0, 2**32 - 2)], run_threads, {'sched': pb, 'dev-order': 0}, split=2,
                what='2 concurrent opens, line-level scheduling points in id allocation', bound='preemptions <= %d' % pb)]
    if tier == 'thorough':
        out.append(Part('threads-3-lines', [{'start': st, 'n': 3} for st in STARTS], run_threads, {'sched': 2, 'dev-order': 0}, split=2,
                        what='3 concurrent opens, line-level scheduling points', bound='preemptions <= 2'))
        out.append(Part('threads-2-opcodes', [{'start': st, 'n': 2, 'opcodes': True} for st in STARTS], run_threads, {'sched': 2, 'dev-order': 0}, split=2,
                        what='2 concurrent opens, bytecode-level scheduling points in id allocation', bound='preemptions <= 2'))
    else:
        out.append(Part('threads-3-lines', [{'start': st, 'n': 3} for st in (0, 2**32 - 2)], run_threads, {'sched': 1, 'dev-order': 0}, split=2,
                        what='3 concurrent opens, line-level scheduling points', bound='preemptions <= 1'))
        out.append(Part('threads-2-opcodes', [{'start': st, 'n': 2, 'opcodes': True} for st in (0, 2**32 - 2)], run_threads, {'sched': 1, 'dev-order': 0}, split=2,
                        what='2 concurrent opens, bytecode-level scheduling points in id allocation', bound='preemptions <= 1'))
    out.append(Part('threads-2-lines-bounded-lock-waits', [{'start': st, 'n': 2, 'timeouts': True} for st in (0, 2**32 - 2)], run_threads, {'sched': pb, 'dev-order': 0, 'lock-timeout': 1}, split=2,
                    what='2 concurrent opens with finite transport timeouts: a lock acquire that is given a timeout may expire while the lock is held', bound='preemptions <= %d, <=1 expired lock wait' % pb))
    out.append(Part('failed-open-overlap', [{'start': st, 'late': l} for st in (STARTS if tier == 'thorough' else (0, 2**32 - 2)) for l in (False, True)], run_failed_overlap, {'sched': pb, 'dev-order': 0}, split=2,
                    what='an open refused by the device fails while another open overlaps it, then a third open', bound='preemptions <= %d' % pb))
    out.append(Part('reconnect-overlap', [{'start': st, 'close': c, 'before': b} for st in (0, 2**32 - 2) for c in (True, False) for b in (0, 1)], run_reconnect_overlap, {'sched': pb - 1, 'dev-order': 0}, split=2,
                    what='an open overlapping close()+connect()+open in another thread: OPEN ids of each connection pairwise different', bound='preemptions <= %d' % (pb - 1), min_outcomes=1))
    out.append(Part('tasks', [{'start': st, 'n': n} for st in STARTS for n in (2, 3)], run_tasks, {'io-order': None, 'dev-order': None}, split=1,
                    what='asyncio tasks, every I/O completion order and device wire order', bound='complete'))
    out.append(Part('sequential-wrap', [{'start': st, 'twin': t} for st in STARTS + [2**32 - 5, 2**31 - 1] for t in ('sync', 'async')], run_seq,
                    what='6 opens in a row with all streams live, across the counter wrap', bound='%d histories' % (2 * (len(STARTS) + 2))))
    sc = [{'start': st, 'twin': t, 'cb': cb, 'held': h} for st in STARTS for t in ('sync', 'async') for cb in ('count', 'reenter') for h in (False, True)]
    out.append(Part('nested-opens', sc, run_nested, what='operations that open a stream while their own stream is open (pull with a callback -> stat; a callback that queries the device), with and without another live stream',
                    bound='%d histories' % len(sc), min_outcomes=2))
    return out
