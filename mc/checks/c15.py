"""C15 -- every message reaches the peer completely, even when the transport writes short."""
from .. import oracle, scen
from ..chooser import FixedChooser
from ..harness import Session
from ..runner import Part

PROPERTY = 'C15'
LEVEL = 'exploration'
RULE = ('session connect (with a signature), shell, stat, push of 3 WRTEs at maxdata 4096, pull; every bulk_write accepts all (default) / 1 / len-1 / half of the bytes and reports the count; '
        'all placements of <=k such deviations over the whole write sequence (stateless DFS), plus global per-call capacities {1, 7, 23, 24, 25, 4095}; both twins; oracle: whenever a call '
        'returns normally the device model has received byte-for-byte the stream of the unlimited run up to that point (a short write must be completed or reported) and at every moment the bytes received so far are a prefix of that stream (in order, without gaps, also when a call raises), results equal the '
        'unlimited run; plus an asyncio task cancelled after each of its transport calls followed by another command (nothing but that command writes afterwards); plus two threads sharing one device over a short-writing transport (one preemption x one short write x one expired bounded lock wait); plus whole sessions over real loopback TCP with 4 KiB socket buffers and a slow reader (must equal the in-memory session); non-trivial = at least one short write; distinct = distinct (twin, capacity / choice list)')
ASSUMPTIONS = ['adbsim device model', 'the in-memory transport reports the accepted count exactly as socket.send / libusb bulkWrite do']
CON = {'_sim': {'auth': {'first': 'token', 'sig': ['cnxn'], 'pub': 'cnxn'}}, '_keys': [0]}


def ops():
    return [('connect', dict(CON)), ('shell', 'c', {'decode': False}), ('stat', '/f'), ('push', ('bytes', scen.push_data(9000)), '/g', {'mtime': 7}), ('pull', '/f', 'bytesio')]


_REF = {}


def run_session(twin, ch, wcap, cap=None, faults=None):
    cfg = scen.ops_cfg('two', 4096)
    cfg['keep_rx'] = True
    if faults:
        cfg['faults'] = faults
    if cap:
        cfg['wcap_global'] = cap
    s = Session(ch, cfg, twin=twin, wcap=wcap)
    s.env.rx = bytearray()
    feed0 = s.env.t_write
    marks = []
    try:
        res = []
        for o in ops():
            r = s.op(o)
            res.append(r)
            marks.append(s.env.host_bytes)
            if r[0] != 'ok':
                break
        raw = b''.join(frames_bytes(p) for w, p in s.env.events if w == 'H')
        return {'res': res, 'marks': marks, 'parsed': raw, 'rx': bytes(s.env.rx_raw), 'rx_at_fault': s.env.rx_at_fault, 'partial': s.env.dev.parser.partial() if s.env.dev else 0, 'err': s.env.dev.parser.error if s.env.dev else None,
                'writes': s.env.write_calls, 'fs': scen.fs_view(s.env), 'issues': list(s.env.issues)}
    finally:
        s.finish()


def frames_bytes(p):
    from .. import frames
    return frames.encode(p.cmd, p.a0, p.a1, p.data) + p.data


def reference(twin):
    if twin not in _REF:
        _REF[twin] = run_session(twin, FixedChooser(), False)
        assert all(r[0] == 'ok' for r in _REF[twin]['res']), _REF[twin]['res']
    return _REF[twin]


def run_short(params, ch):
    twin = params['twin']
    ref = reference(twin)
    o = run_session(twin, ch, wcap=not params.get('cap'), cap=params.get('cap'), faults={int(k): v for k, v in params.get('faults', [])})
    viol = []
    names = [x[0] for x in ops()]
    for i, r in enumerate(o['res']):
        if r[0] == 'ok':
            # the call returned normally: everything it sent must have arrived, exactly
            if o['marks'][i] != ref['marks'][i]:
                viol.append({'msg': '%s returned normally but the device received %d bytes where the unlimited run delivers %d: a message was silently truncated'
                             % (names[i], o['marks'][i], ref['marks'][i]), 'sig': 'F1'})
                break
            if r != ref['res'][i]:
                viol.append({'msg': '%s returned %r, the unlimited run returns %r' % (names[i], r, ref['res'][i])})
        elif r[0] != 'exc':
            viol.append({'msg': '%s ended with %r' % (names[i], r)})
    if all(r[0] == 'ok' for r in o['res']) and len(o['res']) == len(ref['res']):
        if o['parsed'] != ref['parsed'] or o['partial'] or o['err']:
            viol.append({'msg': 'all calls returned normally but the byte stream the device received differs from the unlimited run (%s)' % (o['err'] or 'content',), 'sig': 'F1'})
        if o['fs'] != ref['fs']:
            viol.append({'msg': 'pushed file differs from the unlimited run'})
    raised = any(r[0] != 'ok' for r in o['res'])
    if raised and o['rx_at_fault'] is not None:
        # once a transport error has been raised to the caller the session is broken (clean-up handlers may still write);
        # the in-order / no-gap clause is judged on what the device had received up to that moment
        after = o['rx'][o['rx_at_fault']:]
        o['rx'] = o['rx'][:o['rx_at_fault']]
        # ... and a clean-up handler closes streams, nothing else: a partly written message must not be re-sent or continued behind the caller's back
        k = 0
        while k + 24 <= len(after) and after[k:k + 4] == b'CLSE' and after[k + 12:k + 16] == b'\0\0\0\0':
            k += 24
        if k != len(after):
            viol.append({'msg': 'after the transport error at byte %d the library wrote %d more bytes that are not stream-closing messages (%r...): a partly written message was re-sent or continued '
                                'although the failure had to be reported; results %r' % (o['rx_at_fault'], len(after) - k, bytes(after[k:k + 8]), [r[:2] if r[0] != 'ok' else 'ok' for r in o['res']])})
    if not ref['rx'].startswith(o['rx']):
        n = next((i for i, (a, b) in enumerate(zip(o['rx'], ref['rx'])) if a != b), min(len(o['rx']), len(ref['rx'])))
        viol.append({'msg': 'the bytes the device received are not a prefix of the stream of the unlimited run: first difference at offset %d of %d (a gap or a repetition inside a message), '
                            'results %r' % (n, len(o['rx']), [r[:2] if r[0] != 'ok' else 'ok' for r in o['res']])})
    dev = [c for c in ch.choices if c]
    return {'outcome': (tuple(r[:2] if r[0] != 'ok' else 'ok' for r in o['res']), o['writes'] - ref['writes']), 'viol': viol,
            'nontrivial': (twin, params.get('cap'), tuple(ch.choices)) if (dev or params.get('cap')) else None,
            'sample': {'twin': twin, 'capacity': params.get('cap'), 'short_writes_at': [i for i, c in enumerate(ch.choices) if c][:6], 'bulk_write_calls': o['writes'],
                       'results': [r[0] for r in o['res']]}, 'trans': o['writes']}


def run_cancel(params, ch):
    """asyncio: the task running a command is cancelled (e.g. by wait_for) after its k-th transport call, over a transport that writes
    16 bytes per call, so most k fall inside a message.  Afterwards another command runs on the same device.  From the cancellation on,
    only the second command's task writes to the transport: a cancelled sender must not keep writing in the background, where its
    bytes would land inside the other command's messages."""
    import asyncio
    cfg = scen.ops_cfg('two', 4096)
    cfg['wcap_global'] = params['cap']
    s = Session(ch, cfg, twin='async', explore_io=True, max_calls=20000)
    try:
        loop = s.loop
        loop._explore_io = False
        s.env.sched = None
        s.op(('connect',))
        loop._explore_io = True
        s.env.sched = loop
        s.env.writers = []
        cmd = 'A' * params['cmdlen']
        task, cancelled = loop.drive_cancelling(s.dev.shell(cmd, decode=False), loop.io_choices + params['k'])
        try:
            ra = ('ok', task.result())
        except asyncio.CancelledError:
            ra = ('cancelled',)
        except Exception as e:  # pylint: disable=broad-except
            ra = ('exc', type(e).__name__)
        mark = len(s.env.writers)
        loop._explore_io = False
        s.env.sched = None
        holder = {}

        async def second():
            holder['task'] = asyncio.current_task()
            return await s.dev.shell('c', decode=False, transport_timeout_s=0.5, read_timeout_s=0.5)
        rb = s.run(lambda d: second())
        viol = []
        foreign = [(i, n) for i, (t, n) in enumerate(s.env.writers[mark:]) if t is not holder.get('task')]
        if cancelled and foreign:
            viol.append({'msg': 'after the task running shell(%d bytes) was cancelled at its transport call %d (result %r), %d bulk_write calls (%d bytes) came from a task other than the one running the next '
                                'command: a cancelled send kept writing in the background' % (params['cmdlen'], params['k'], ra, len(foreign), sum(n for _i, n in foreign))})
        return {'outcome': (ra[0], rb[0], bool(foreign)), 'viol': viol, 'nontrivial': (params['cap'], params['cmdlen'], params['k']) if cancelled else None,
                'sample': dict(params, first=ra[:2], second=rb[:2], writes_after_cancel=len(s.env.writers) - mark), 'trans': len(s.env.writers)}
    finally:
        s.env.sched = None
        s.finish()


def parts(tier):
    twins = ('sync', 'async')
    k = 2 if tier == 'quick' else 3
    out = [Part('short-write-dfs', [{'twin': t} for t in twins], run_short, {'wcap': k}, split=1 if tier == 'quick' else 2,
                what='all placements of <=%d short-write deviations over every bulk_write of the session' % k, bound='wcap deviations <= %d' % k)]
    from . import c18
    sc = [{'transport': t, 'buffers': 'small', 'push': pz} for t in twins for pz in ('small', 'big')]
    sc += [{'transport': t, 'buffers': 'small-fast', 'push': 'big', 'stall': 300000} for t in twins]       # the reader stops once, in mid-push, for longer than the transport timeout
    out.append(Part('loopback-small-buffers', sc, c18.run_tcp_session, what='real loopback TCP, SO_SNDBUF/SO_RCVBUF 4 KiB, slow reader, 100 KiB and 1 MiB push with a 5 s transport timeout',
                    bound='%d sessions (conformance runs: kernel scheduling is not enumerated)' % len(sc), exhaustive=False, chunk=1, min_outcomes=1, workers=4))
    nref = 140
    sc = [{'twin': t, 'faults': [[k, 'timeout']]} for t in twins for k in range(2, nref)]
    out.append(Part('short-write-then-timeout', sc, run_short, {'wcap': 1}, what='one transport timeout at every call index combined with every placement of one short write: whatever reached the '
                    'device must stay a prefix of the intended stream (no resend of a partly written message)', bound='%d fault positions x wcap deviations <= 1' % len(sc)))
    from . import c06
    out.append(Part('threads-short-writes', [{'scenario': k, 'wcap': True} for k in ('shell2|shell1', 'shell|push')], c06.run_threads, {'sched': 1, 'wcap': 1, 'dev-order': 0, 'lock-timeout': 1}, split=2,
                    what='two threads on one device over a short-writing transport: every schedule with one preemption x one short write x one expired bounded lock wait; every message arrives whole '
                         '(strict parser on the device side) and each call returns its solo result', bound='preemptions <= 1, short writes <= 1, expired lock waits <= 1', min_outcomes=1))
    out.append(Part('tasks-queued-writes', [{'scenario': k, 'lazy': True} for k in ('shell2|shell1', 'shell|push', 'stream|shell')], c06.run_tasks, {'io-order': None, 'dev-order': 0}, split=2,
                    what='two asyncio tasks on one device over a transport that queues written buffers by reference until its next call (as asyncio streams do): every I/O completion order; '
                         'every message arrives whole and each call returns its solo result', bound='complete for the I/O completion order', min_outcomes=1))
    sc = [{'cap': cap, 'cmdlen': n, 'k': k} for cap, n in ((16, 100), (7, 40)) for k in range(0, 3 + (24 + n + 7) // cap + 6)]
    out.append(Part('async-cancellation', sc, run_cancel, what='the asyncio task running a command is cancelled after its k-th transport call (every k of a short-writing transport), then another command runs: '
                    'no write from any other task after the cancellation', bound='%d cancellation points' % len(sc), min_outcomes=2))
    out.append(Part('global-capacity', [{'twin': t, 'cap': c} for t in twins for c in (1, 7, 23, 24, 25, 4095)], run_short,
                    what='every bulk_write accepts at most c bytes', bound='6 capacities x 2 twins'))
    return out
