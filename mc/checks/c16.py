"""C16 -- the async API is behaviourally identical to the sync API (differential exploration)."""
from .. import monitor, scen
from ..chooser import Chooser, ReplayDivergence
from ..harness import Session
from ..runner import Part

PROPERTY = 'C16'
LEVEL = 'exploration'
RULE = ('each generated program (operation sequence x device configuration x environment choice list) is executed once through AdbDevice and once through AdbDeviceAsync against twin device '
        'models, the async run replaying exactly the choice list of the sync run; families: (a) all operation sequences of length <=2 over the 8-operation alphabet x chunkings x maxdata with <=1 '
        'read-fragment deviation, (b) every handshake decision sequence (0..3 keys, callbacks), (c) failing transfers (FAIL at every point / position, invalid records), (d) a fault of 3 kinds at '
        'every transport-call index of a six-operation session, (e) stalls at every awaited packet, (f) availability sequences of length <=3 incl. empty paths, (g) push sources x callbacks, (i) the device closing a stream instead of sending the next WRTE, (j) legacy CLSE packets with zeroed ids, (k) device replies overtaking the OKAY of the request, '
        '(l) device-level default timeout x per-call transport/read timeouts incl. 0, 0.0 and None against a device with latency (timeouts handed to the transport compared too), (h) short writes; oracle: host packet logs byte-equal, results equal, exception types equal, `available` equal after each step, same device-side files, same callback invocations (when the twins structure their transport calls differently the recorded answers are replayed leniently and only observable behaviour is compared); non-trivial = program has at least one operation; distinct = distinct (family, program, choice list)')
ASSUMPTIONS = ['adbsim device model and in-memory twin transports that differ only in being awaited', 'exception messages are not compared, only types']


def run_prog(twin, prog, ch):
    s = Session(ch, prog['cfg'], twin=twin, frag=prog.get('frag', False), wcap=prog.get('wcap', False), eps=prog.get('eps', 0.0),
                order_budgeted=True, max_calls=30000, default_timeout=prog.get('default_timeout'))
    try:
        if 'local_id' in prog:
            s.dev._local_id = prog['local_id']
        res, avail = [], []
        for st in prog['steps']:
            r = s.op(tuple(st) if not isinstance(st, tuple) else st)
            res.append(r if r[0] != 'exc' else r[:2])
            avail.append(s.dev.available)
            if r[0] != 'ok' and prog.get('stop_on_exc'):
                break
        return {'res': res, 'avail': avail, 'host': monitor.host_log(s.env.events), 'fs': scen.fs_view(s.env), 'cb': list(s.cb_log), 'calls': s.env.calls, 'timeouts': list(s.env.timeouts) if prog.get('compare_timeouts') else None,
                'points': [(k, n) for (k, n, _c) in ch.points]}
    finally:
        s.finish()


def run_pair(params, ch):
    prog = params['prog']
    a = run_prog('sync', prog, ch)
    viol = []
    # The async run replays the environment answers of the sync run.  If the two twins structure their transport calls differently the
    # answers cannot be aligned one to one; they are then replayed leniently (what fits), which is still a sound comparison because for
    # a correct implementation results and bytes on the wire do not depend on fragmentation / short-write / wire-order answers at all.
    aligned = True
    try:
        b = run_prog('async', prog, Chooser(ch.choices, a['points'], strict=True))
    except ReplayDivergence:
        aligned = False
        b = run_prog('async', prog, Chooser(ch.choices, None, lenient=True))
    if b is not None:
        for i, (x, y) in enumerate(zip(a['res'], b['res'])):
            if x != y:
                viol.append({'msg': 'step %d %r: sync gave %r, async gave %r' % (i, prog['steps'][i][0], x if len(repr(x)) < 200 else repr(x)[:200], y if len(repr(y)) < 200 else repr(y)[:200])})
                break
        if len(a['res']) != len(b['res']):
            viol.append({'msg': 'sync ran %d steps, async %d' % (len(a['res']), len(b['res']))})
        if a['avail'] != b['avail']:
            viol.append({'msg': '`available` after each step: sync %r, async %r' % (a['avail'], b['avail'])})
        if a['host'] != b['host']:
            n = next((i for i, (x, y) in enumerate(zip(a['host'], b['host'])) if x != y), min(len(a['host']), len(b['host'])))
            viol.append({'msg': 'host packet logs differ at packet %d: sync %r, async %r' % (n, a['host'][n:n + 1], b['host'][n:n + 1])})
        if a['fs'] != b['fs']:
            viol.append({'msg': 'device-side files differ between the twins'})
        if a['timeouts'] != b['timeouts']:
            n = next((i for i, (x, y) in enumerate(zip(a['timeouts'], b['timeouts'])) if x != y), min(len(a['timeouts']), len(b['timeouts'])))
            viol.append({'msg': 'timeouts handed to the transport differ at call %d: sync %r, async %r (device default %r)' % (n, a['timeouts'][n:n + 1], b['timeouts'][n:n + 1], prog.get('default_timeout'))})
        if a['cb'] != b['cb']:
            viol.append({'msg': 'progress callback invocations differ: sync %r, async %r' % (a['cb'][:3], b['cb'][:3])})
    return {'outcome': (tuple(r[:2] if r[0] != 'ok' else 'ok' for r in a['res']), len(a['host'])), 'viol': viol,
            'nontrivial': (params['family'], params['idx'], tuple(ch.choices)) if prog['steps'] else None,
            'sample': {'family': params['family'], 'steps': [s[0] for s in prog['steps']], 'results': [r[0] if r[0] != 'exc' else r[1] for r in a['res']], 'host_packets': len(a['host'])},
            'extra': {'unaligned_replays': 0 if aligned else 1}, 'trans': a['calls']}


def programs(tier):
    fam = {}
    con = ('connect',)
    # (a) operation sequences
    progs = []
    seqs = [()] + [(o,) for o in scen.OPS8] + [(o, p) for o in scen.OPS8 for p in scen.OPS8]
    if tier == 'thorough':
        seqs += [(o, p, q) for o in scen.OPS8 for p in scen.OPS8 for q in scen.OPS8]
    for ops in seqs:
        for chk in ('one', 'two', 'bytes'):
            for md in ((4096, 1024 * 1024) if len(ops) < 2 else (4096,)):
                progs.append({'cfg': scen.ops_cfg(chk, md), 'steps': [con] + [scen.op_tuple(o, 9000 if md == 4096 else 40) for o in ops], 'frag': (len(ops) <= 1 or (tier == 'thorough' and len(ops) == 2)) and chk != 'bytes'})
    fam['op-sequences'] = (progs, {'frag': 1 if tier == 'quick' else 2})
    # (b) handshake
    progs = []
    for n in range(0, 4 if tier == 'quick' else 6):
        for cb in (False, True):
            kw = {'transport_timeout_s': 1.0, 'read_timeout_s': 2.0, 'auth_timeout_s': 5.0, '_keys': list(range(n)),
                  '_sim': {'auth': {'first': 'choose', 'sig': 'choose', 'pub': 'choose', 'pub_delay': 2.5, 'late_delay': 7.0, 'maxdata': 4096}}}
            if not n:
                kw.pop('_keys')
            progs.append({'cfg': scen.ops_cfg(), 'steps': [('connect', kw), scen.op_tuple('shell'), ('connect', dict(kw)), scen.op_tuple('push', 5000)]})
    fam['handshake'] = (progs, {'*': None, 'dev-order': 0, 'frag': 0})
    # (c) failing transfers
    progs = []
    for when in ('header', ('data', 1), ('data', 2), 'done'):
        for delay in (0, 1, 2):
            for size in (100, 5000, 9000):
                cfg = scen.ops_cfg('one', 4096)
                cfg['fail'] = {'op': 'send', 'when': when, 'reason': b'denied \xff', 'delay': delay}
                progs.append({'cfg': cfg, 'steps': [con, scen.op_tuple('push', size), scen.op_tuple('stat')]})
    for when in ('start', ('data', 1), 'done'):
        for chk in ('one', 'bytes'):
            cfg = scen.ops_cfg(chk, 4096)
            cfg['fail'] = {'op': 'recv', 'when': when, 'reason': b'nope'}
            progs.append({'cfg': cfg, 'steps': [con, scen.op_tuple('pull'), scen.op_tuple('stat')]})
    from .. import frames
    for sid in (b'DENT', b'STAT', b'OKAY', b'QUIT', b'DATA'):
        cfg = scen.ops_cfg('one', 4096)
        cfg['sync_override'] = {b'RECV': frames.u32(frames.S[sid]) + b'\0' * 4, b'LIST': frames.u32(frames.S[sid]) + b'\0' * 16}
        cfg['status_override'] = frames.u32(frames.S[sid]) + b'\0' * 4
        progs.append({'cfg': cfg, 'steps': [con, scen.op_tuple('pull'), scen.op_tuple('list'), scen.op_tuple('push')]})
    fam['failing-transfers'] = (progs, {'dev-order': 1})
    # (d) faults at every transport-call index
    progs = []
    steps = [('connect', {'transport_timeout_s': 0.1, 'read_timeout_s': 0.2})] + [scen.op_tuple(o, 5000) for o in ('shell', 'stat', 'list', 'pull', 'push', 'streaming_shell')] + \
            [('close',), ('connect', {'transport_timeout_s': 0.1, 'read_timeout_s': 0.2}), scen.op_tuple('shell')]
    for k in range(0, 110 if tier == 'quick' else 160):
        for kind in ('timeout', 'reset', 'eof'):
            cfg = scen.ops_cfg('two', 4096)
            cfg['faults'] = {k: kind}
            progs.append({'cfg': cfg, 'steps': steps, 'eps': 0.001})
    fam['faults'] = (progs, {})
    # (e) stalls
    progs = []
    for k in range(0, 40, 1 if tier == 'thorough' else 2):
        for kind in ('silence', 'eof', 'other', 'unexpected', 'trickle'):
            cfg = scen.ops_cfg('two', 4096)
            cfg['stall'] = {'frame': k, 'kind': kind, 'j': 23}
            kw = {'transport_timeout_s': 0.05, 'read_timeout_s': 0.2}
            progs.append({'cfg': cfg, 'eps': 0.001, 'stop_on_exc': True,
                          'steps': [('connect', dict(kw)), ('shell', 'c', dict(kw, decode=False, timeout_s=1)), ('list', '/d', dict(kw)), ('pull', '/f', 'bytesio', dict(kw, cb='count')),
                                    ('push', ('bytes', scen.push_data(5000)), '/g', dict(kw))]})
    fam['stalls'] = (progs, {})
    # (f) availability sequences
    progs = []
    alpha = [('connect',), ('connect', {'_sim': {'auth': {'first': 'token', 'sig': 'token', 'pub': 'never'}}}), ('close',), scen.op_tuple('shell'), scen.op_tuple('pull'),
             ('list', ''), ('push', ('bytes', b'zz'), None), ('stat', b''), ('reboot',)]
    lvl = [[]]
    for _ in range(3):
        lvl = [p + [a] for p in lvl for a in alpha]
        progs += [{'cfg': scen.ops_cfg(), 'steps': p} for p in lvl]
    fam['availability'] = (progs, {})
    # (g) push sources x callbacks, pull destinations
    progs = []
    for src in (('bytes', scen.push_data(5000)), ('file', scen.push_data(5000)), ('dir', {'a': b'A' * 3000, 'b b': b''}, 'elsewhere'), ('dir', {}, 'parent')):
        for cb in (None, 'count', 'raise', 'reenter'):
            kw = {'cb': cb} if cb else {}
            progs.append({'cfg': scen.ops_cfg('one', 4096), 'steps': [con, ('push', src, '/g', dict(kw, mtime=0, st_mode=0o644))]})
    for dest in ('bytesio', 'path', 'newpath'):
        for cb in (None, 'count', 'raise'):
            progs.append({'cfg': scen.ops_cfg('bytes', 4096), 'steps': [con, ('pull', '/f', dest, {'cb': cb} if cb else {})]})
    # a suspended stream under other commands (packets parked and registered streams), with device ids unlike the host's
    for famx in ('extreme', 'small'):
        for chkx, clsx in (('one', 'after-ack'), ('one', 'eager'), ('two', 'after-ack')):
            progs.append({'cfg': scen.ops_cfg(chkx, 4096, clsx, family=famx), 'steps': [con, ('gen-start', 'c', {'decode': False}), scen.op_tuple('exec_out'), ('gen-rest', 0), scen.op_tuple('stat')]})
        cfgx = scen.ops_cfg('two', 4096, 'eager', family=famx)
        progs.append({'cfg': cfgx, 'steps': [con, ('gen-start', 'c', {'decode': False}), scen.op_tuple('exec_out'), scen.op_tuple('stat'), ('gen-rest', 0), scen.op_tuple('shell')]})
    for cbk in ('raise-base',):
        progs.append({'cfg': scen.ops_cfg('one', 4096), 'steps': [con, ('push', ('bytes', scen.push_data(5000)), '/g', {'cb': cbk, 'mtime': 3}), scen.op_tuple('stat')]})
        progs.append({'cfg': scen.ops_cfg('bytes', 4096), 'steps': [con, ('pull', '/f', 'bytesio', {'cb': cbk}), scen.op_tuple('stat')]})
    for modex in (33188.0, True, 0o644):
        progs.append({'cfg': scen.ops_cfg('one', 4096), 'steps': [con, ('push', ('bytes', scen.push_data(300)), '/g', {'st_mode': modex, 'mtime': 3}), scen.op_tuple('stat')]})
    for dest in ('newdir',):
        # a local destination that cannot be opened (its directory does not exist): same exception, and the same bytes on the wire before it
        progs.append({'cfg': scen.ops_cfg('two', 4096), 'steps': [con, ('pull', '/f', dest), scen.op_tuple('stat'), scen.op_tuple('shell')]})
    for md in (65536, 100000, 256 * 1024, 1024 * 1024):
        progs.append({'cfg': scen.ops_cfg('one', md), 'steps': [con, ('push', ('bytes', scen.push_data(200000)), '/big', {'mtime': 3}), scen.op_tuple('stat')]})
    ucfg = scen.ops_cfg('two', 4096)
    ucfg['fs'] = {'files': {'/sd/caf\u00e9 \u5199\u771f.txt'.encode(): {'data': b'unicode file', 'mode': 0o100644, 'mtime': 9}}, 'dirs': {'/sd/\u00fcber'.encode(): scen.DIR_D}}
    progs.append({'cfg': ucfg, 'steps': [con, ('stat', '/sd/caf\u00e9 \u5199\u771f.txt'), ('list', '/sd/\u00fcber'), ('pull', '/sd/caf\u00e9 \u5199\u771f.txt', 'bytesio'),
                                         ('push', ('bytes', b'abc'), '/sd/\u00e9\u00e8/x')]})
    for start in (0, 2**32 - 3):
        progs.append({'cfg': scen.ops_cfg('two', 4096, family='extreme'), 'local_id': start, 'steps': [con] + [scen.op_tuple(o) for o in scen.OPS8]})
    fam['sources-callbacks-ids'] = (progs, {})
    # (i) the device service dies: CLSE instead of the next WRTE of a stream
    progs = []
    for stream in range(0, 5):
        for after in (0, 1, 2):
            cfg = scen.ops_cfg('bytes', 4096)
            cfg['die'] = {'stream': stream, 'after': after}
            kw = {'transport_timeout_s': 0.05, 'read_timeout_s': 0.2}
            progs.append({'cfg': cfg, 'eps': 0.001,
                          'steps': [('connect', dict(kw)), ('shell', 'c', dict(kw, decode=False)), ('stat', '/f', dict(kw)), ('list', '/d', dict(kw)), ('pull', '/f', 'bytesio', dict(kw)),
                                    ('streaming_shell', 'c', dict(kw, decode=False))]})
    fam['early-close'] = (progs, {})
    # (j) legacy devices: CLSE with zeroed ids; (k) the device's reply overtaking its OKAY
    progs = []
    for z in ('a0', 'a1', 'both'):
        for clse in ('after-ack', 'eager'):
            for chk in ('one', 'two'):
                cfg = scen.ops_cfg(chk, 4096, clse)
                cfg['zero_clse'] = z
                kw = {'transport_timeout_s': 0.05, 'read_timeout_s': 0.2}
                progs.append({'cfg': cfg, 'eps': 0.001, 'steps': [('connect', dict(kw)), ('shell', 'c', dict(kw, decode=False)), ('root', dict(kw)), ('streaming_shell', 'c', dict(kw, decode=False)),
                                                                    ('exec_out', 'c', dict(kw, decode=False))]})
    fam['zero-id-close'] = (progs, {})
    progs = []
    for chk in ('one', 'two', 'bytes'):
        cfg = scen.ops_cfg(chk, 4096)
        cfg['okay_order'] = 'choice'
        progs.append({'cfg': cfg, 'steps': [con] + [scen.op_tuple(o, 5000) for o in ('stat', 'list', 'pull', 'push')]})
    fam['reply-before-okay'] = (progs, {'okay-order': 2})
    # (l) timeout arguments: device-level default x per-call transport/read timeouts (None, 0, 0.0, small, large; int and float) against a
    # device that answers with some latency -- a zero timeout means polling in both twins
    progs = []
    for dflt in (None, 2.0, 0, 3):
        for tt in ('omit', None, 0, 0.0, 0.05, 5):
            for rt in ('omit', 0, 0.2, 7):
                for lat in (0.0, 0.02):
                    kw = {}
                    if tt != 'omit':
                        kw['transport_timeout_s'] = tt
                    if rt != 'omit':
                        kw['read_timeout_s'] = rt
                    cfg = scen.ops_cfg('two', 4096)
                    if lat:
                        cfg['open_delay'] = {b'shell:c': lat, b'sync:': lat}
                        cfg['wrte_delay'] = lat
                    progs.append({'cfg': cfg, 'default_timeout': dflt, 'compare_timeouts': True,
                                  'steps': [('connect',), ('shell', 'c', dict(kw, decode=False)), ('stat', '/f', dict(kw)), ('push', ('bytes', scen.push_data(5000)), '/g', dict(kw, mtime=7)),
                                            ('shell', 'c', {'decode': False})]})
    fam['timeout-arguments'] = (progs, {})
    # (h) short writes
    progs = [{'cfg': scen.ops_cfg('two', 4096), 'wcap': True, 'steps': [con, scen.op_tuple('shell'), scen.op_tuple('push', 5000), scen.op_tuple('stat')]}]
    fam['short-writes'] = (progs, {'wcap': 2 if tier == 'quick' else 3})
    return fam


def parts(tier):
    out = []
    for name, (progs, budgets) in programs(tier).items():
        sc = [{'family': name, 'idx': i, 'prog': p} for i, p in enumerate(progs)]
        b = dict(budgets)
        b.setdefault('dev-order', 0)
        out.append(Part(name, sc, run_pair, b, what='%d programs through both twins' % len(sc), bound='budgets %r' % (budgets,), split=1 if len(sc) < 8 else 0,
                        min_outcomes=2 if len(sc) > 1 else 1))
    return out
