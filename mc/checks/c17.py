"""C17 -- key material is what adbd expects: signatures verify, the public key blob is correct."""
import base64
import os
import random

from .. import common
from ..harness import init_tmp
from ..runner import Part

PROPERTY = 'C17'
LEVEL = 'exploration'
RULE = ('keys (chosen so that both values of the top bit of n0inv occur; one with public exponent 3; one committed key whose rr = 2^4096 mod n has two leading zero bytes; file names with dots, one pair named like another plus a suffix): k deterministic 2048-bit keys from a seeded Miller-Rabin prime search (written as PKCS#8 PEM) + k fresh keygen() keys, every key written to disk and re-loaded through '
        'write_public_keyfile / the signer constructors; tokens: all-zero, all-0xff, the 20 single-byte-set and 160 single-bit-set tokens, tokens with 1..19 leading zero bytes, seeded random ones, and per key two tokens whose correct signature starts with a zero byte (found with the reference computation) '
        'ones (~230 shapes); signers: CryptographySigner, PycryptodomeAuthSigner, PythonRSASigner; two threads signing concurrently (all schedules with <=1 preemption at line granularity inside the signer modules; each signature equals the sequential one); a history in which the key pair at one path is regenerated and re-loaded three times in one process; oracle: pure-integer RSA check s^e mod n == 00 01 FF..FF 00 || DER(SHA-1 DigestInfo) || token, '
        'cryptography\'s verifier with Prehashed(SHA1), equality of the three signers\' outputs (PKCS#1 v1.5 is deterministic), and an independent decoder of the 524-byte Android RSAPublicKey '
        '(words, n0inv*n == -1 mod 2^32, little-endian modulus, rr == 2^4096 mod n, exponent, trailing " user@host"); non-trivial = every (key, signer, token); distinct likewise')
ASSUMPTIONS = ['RSA correctness over all keys is not a finite-state question: decided for the enumerated keys x token shapes only',
               'OS randomness inside keygen() is not owned; the property must hold for every key, so any failure is real (the key PEM path is in the replay file)']
SHA1_PREFIX = bytes.fromhex('3021300906052b0e03021a05000414')
SIGNERS = ('cryptography', 'pycryptodome', 'pythonrsa')


def is_prime(n, rnd):
    if n < 2:
        return False
    for p in (2, 3, 5, 7, 11, 13, 17, 19, 23, 29, 31, 37, 41, 43, 47, 53, 59, 61, 67, 71, 73, 79, 83, 89, 97):
        if n % p == 0:
            return n == p
    d, r = n - 1, 0
    while d % 2 == 0:
        d //= 2
        r += 1
    for _ in range(24):
        a = rnd.randrange(2, n - 1)
        x = pow(a, d, n)
        if x in (1, n - 1):
            continue
        for _ in range(r - 1):
            x = pow(x, 2, n)
            if x == n - 1:
                break
        else:
            return False
    return True


def seeded_key(seed, path, e=65537):
    """Deterministic 2048-bit RSA key -> PKCS#8 PEM at path (+ .pub through the library)."""
    from cryptography.hazmat.primitives import serialization
    from cryptography.hazmat.primitives.asymmetric import rsa
    rnd = random.Random('c17/%d/%d' % (common.SEED, seed))

    def prime():
        while True:
            c = rnd.getrandbits(1024) | (3 << 1022) | 1
            if (c - 1) % e != 0 and is_prime(c, rnd):
                return c
    p, q = prime(), prime()
    while p == q:
        q = prime()
    n = p * q
    d = pow(e, -1, (p - 1) * (q - 1))
    nums = rsa.RSAPrivateNumbers(p, q, d, d % (p - 1), d % (q - 1), pow(q, -1, p), rsa.RSAPublicNumbers(e, n))
    key = nums.private_key()
    with open(path, 'wb') as f:
        f.write(key.private_bytes(serialization.Encoding.PEM, serialization.PrivateFormat.PKCS8, serialization.NoEncryption()))
    from adb_shell.auth.keygen import write_public_keyfile
    write_public_keyfile(path, path + '.pub')


def tokens():
    out = [('zero', bytes(20)), ('ff', b'\xff' * 20)]
    out += [('byte%d' % i, bytes(i) + b'\x01' + bytes(19 - i)) for i in range(20)]
    out += [('bit%d' % i, (1 << i).to_bytes(20, 'big')) for i in range(160)]
    r = common.rng('c17tok')
    out += [('lead%d' % j, bytes(j) + bytes([r.randrange(1, 256)]) + r.randbytes(19 - j)) for j in range(1, 20)]
    out += [('rand%d' % i, r.randbytes(20)) for i in range(8)]
    return out


def short_sig_tokens(path, want=2, tries=4000):
    """Tokens whose correct signature starts with a zero byte (about 1 in 256): a signer that drops leading zeros
    produces a 255-byte signature for them.  Found with the reference computation, then used as boundary inputs."""
    from cryptography.hazmat.primitives import hashes
    from cryptography.hazmat.primitives.asymmetric import padding, utils
    key, _n, _e = load_numbers(path)
    r = common.rng('c17short', os.path.basename(path))
    out = []
    for i in range(tries):
        tok = r.randbytes(20)
        if key.sign(tok, padding.PKCS1v15(), utils.Prehashed(hashes.SHA1()))[0] == 0:
            out.append(('shortsig%d' % len(out), tok))
            if len(out) >= want:
                break
    return out


def load_numbers(path):
    from cryptography.hazmat.primitives import serialization
    with open(path, 'rb') as f:
        k = serialization.load_pem_private_key(f.read(), None)
    pn = k.private_numbers().public_numbers
    return k, pn.n, pn.e


def make_signer(kind, path):
    if kind == 'cryptography':
        from adb_shell.auth.sign_cryptography import CryptographySigner
        return CryptographySigner(path)
    if kind == 'pycryptodome':
        from adb_shell.auth.sign_pycryptodome import PycryptodomeAuthSigner
        return PycryptodomeAuthSigner(path)
    from adb_shell.auth.sign_pythonrsa import PythonRSASigner
    return PythonRSASigner.FromRSAKeyPath(path)


def materialise(params):
    """Replay files carry the key material itself (the scratch directory of the original run is gone)."""
    if 'key_pem' in params:
        base = os.path.join(init_tmp(), 'replay-keys')
        os.makedirs(base, exist_ok=True)
        path = os.path.join(base, os.path.basename(params['key']))
        with open(path, 'wb') as f:
            f.write(params['key_pem'])
        with open(path + '.pub', 'wb') as f:
            f.write(params['key_pub'])
        return path
    return params['key']


def with_key(params, viol):
    if viol:
        rp = dict(params, key_pem=open(params['key'], 'rb').read(), key_pub=open(params['key'] + '.pub', 'rb').read()) if 'key_pem' not in params else params
        for v in viol:
            v['replay_params'] = rp
    return viol


def run_sign(params, ch):
    path, kind = materialise(params), params['signer']
    key, n, e = load_numbers(path)
    signer = make_signer(kind, path)
    ref = make_signer('cryptography' if kind != 'cryptography' else 'pythonrsa', path)
    toks = tokens()[params['lo']:params['hi']] + [(a, b) for a, b in params.get('extra', [])]
    viol = []
    from cryptography.hazmat.primitives import hashes
    from cryptography.hazmat.primitives.asymmetric import padding, utils
    bad = 0
    for name, tok in toks:
        try:
            sig = signer.Sign(tok)
        except Exception as ex:  # pylint: disable=broad-except
            viol.append({'msg': '%s.Sign(token %s) raised %s: %s' % (kind, name, type(ex).__name__, ex)})
            continue
        em = b'\x00\x01' + b'\xff' * (256 - 3 - len(SHA1_PREFIX) - 20) + b'\x00' + SHA1_PREFIX + tok
        ok = isinstance(sig, (bytes, bytearray)) and len(sig) == 256 and pow(int.from_bytes(sig, 'big'), e, n) == int.from_bytes(em, 'big')
        if ok:
            try:
                key.public_key().verify(bytes(sig), tok, padding.PKCS1v15(), utils.Prehashed(hashes.SHA1()))
            except Exception:  # pylint: disable=broad-except
                ok = False
        if not ok:
            bad += 1
            if bad <= 2:
                viol.append({'msg': '%s signature over token %s (%s) is not the RSASSA-PKCS1-v1_5 signature of the token taken as a SHA-1 digest (adbd would reject it)' % (kind, name, tok.hex()),
                             'sig': 'F3' if kind == 'pycryptodome' else None})
        elif bytes(sig) != bytes(ref.Sign(tok)):
            viol.append({'msg': '%s and the reference signer disagree on token %s although PKCS#1 v1.5 is deterministic' % (kind, name)})
    with_key(params, viol)
    return {'outcome': (kind, bad, len(toks)), 'viol': viol, 'nontrivial': (os.path.basename(path), kind, params['lo']), 'extra': {'signatures': len(toks)},
            'sample': {'key': os.path.basename(path), 'signer': kind, 'tokens': [t[0] for t in toks[:4]], 'bad': bad}, 'trans': len(toks)}


def run_blob(params, ch):
    path = materialise(params)
    _key, n, e = load_numbers(path)
    viol = []
    raw = open(path + '.pub', 'rb').read()
    b64, sep, comment = raw.partition(b' ')
    try:
        blob = base64.b64decode(b64, validate=True)
    except Exception as ex:  # pylint: disable=broad-except
        blob = b''
        viol.append({'msg': 'public key file does not start with valid base64: %s' % ex})
    if len(blob) != 524:
        viol.append({'msg': 'decoded public key blob has %d bytes, expected 524' % len(blob)})
    else:
        words = int.from_bytes(blob[0:4], 'little')
        n0inv = int.from_bytes(blob[4:8], 'little')
        mod = int.from_bytes(blob[8:264], 'little')
        rr = int.from_bytes(blob[264:520], 'little')
        exp = int.from_bytes(blob[520:524], 'little')
        if words != 64:
            viol.append({'msg': 'modulus_size_words is %d' % words})
        if mod != n:
            viol.append({'msg': 'modulus in the blob differs from the private key\'s'})
        if (n0inv * n + 1) % (1 << 32) != 0:
            viol.append({'msg': 'n0inv * n != -1 (mod 2^32)'})
        if rr != pow(2, 4096, n):
            viol.append({'msg': 'rr != 2^4096 mod n'})
        if exp != e:
            viol.append({'msg': 'exponent %d != %d' % (exp, e)})
    if sep != b' ' or b'@' not in comment or comment.startswith(b'@') or comment.endswith(b'@') or b'\n' in comment or b' ' in comment:
        viol.append({'msg': 'public key file does not end with " user@host": %r' % (comment[:40],)})
    for kind in SIGNERS:
        pk = make_signer(kind, path).GetPublicKey()
        pkb = pk.encode() if isinstance(pk, str) else bytes(pk)
        if pkb != raw:
            viol.append({'msg': '%s.GetPublicKey() does not return the public key file contents' % kind})
    from adb_shell.auth.keygen import encode_pubkey
    if bytes(encode_pubkey(path)) != blob:
        viol.append({'msg': 'encode_pubkey() differs from the blob stored in the .pub file'})
    with_key(params, viol)
    return {'outcome': (os.path.basename(path), len(viol)), 'viol': viol, 'nontrivial': os.path.basename(path), 'sample': {'key': os.path.basename(path), 'blob_bytes': len(blob),
            'comment': comment[:30]}, 'trans': 1}


def run_regen(params, ch):
    """History: a key pair is generated at path P and loaded, then regenerated at the same P and loaded again
    (all in one process): the second signer must sign with the key that is now on disk."""
    from adb_shell.auth.keygen import keygen
    base = os.path.join(init_tmp(), 'regen-%d-%s-%d' % (os.getpid(), params['signer'], params['order']))
    os.makedirs(base, exist_ok=True)
    path = os.path.join(base, 'adbkey')
    viol = []
    tok = common.rng('regen').randbytes(20)
    em = b'\x00\x01' + b'\xff' * (256 - 3 - len(SHA1_PREFIX) - 20) + b'\x00' + SHA1_PREFIX + tok
    sigs = []
    from adb_shell.auth.keygen import write_public_keyfile
    import socket
    # who generates the key changes between the generations (the seams are the OS calls, not the library): the comment of the public
    # key file names the user and host at the time the file is written
    idents = [(None, None, None), ('alice', 'buildbox', b' alice@buildbox'), (OSError('no controlling terminal'), 'buildbox', b' unknown@buildbox')]
    real_login, real_host = os.getlogin, socket.gethostname
    for gen in range(3):
        login, host, want_comment = idents[gen]
        try:
            if login is not None:
                def fake_login(_l=login):
                    if isinstance(_l, Exception):
                        raise _l
                    return _l
                os.getlogin = fake_login
                socket.gethostname = lambda _h=host: _h
            keygen(path)
        finally:
            os.getlogin, socket.gethostname = real_login, real_host
        if want_comment is not None:
            raw0 = open(path + '.pub', 'rb').read()
            if not raw0.endswith(want_comment) or raw0[:-len(want_comment)].count(b' '):
                viol.append({'msg': 'generation %d: the public key file written while the user/host were %r ends with %r, expected %r' % (
                    gen, (str(login), host), raw0[-28:], want_comment)})
        _key, n, e = load_numbers(path)
        others = [k for k in SIGNERS if k != params['signer']]
        for kind in ([params['signer']] + others if params['order'] == 0 else others + [params['signer']]):
            sg = make_signer(kind, path)
            sig = sg.Sign(tok)
            if len(sig) != 256 or pow(int.from_bytes(sig, 'big'), e, n) != int.from_bytes(em, 'big'):
                viol.append({'msg': 'generation %d: %s loaded from %s signs with a key that is not the one on disk' % (gen, kind, os.path.basename(path))})
            pk = sg.GetPublicKey()
            if (pk.encode() if isinstance(pk, str) else bytes(pk)) != open(path + '.pub', 'rb').read():
                viol.append({'msg': 'generation %d: %s.GetPublicKey() is not the public key file on disk' % (gen, kind)})
            if kind == params['signer']:
                sigs.append(bytes(sig))
        # the regenerated public key file (written over the previous generation's file) must still be "<base64 of the 524-byte blob> user@host"
        for step in ('keygen', 'write_public_keyfile again'):
            if step != 'keygen':
                write_public_keyfile(path, path + '.pub')
            raw = open(path + '.pub', 'rb').read()
            b64, sep, comment = raw.partition(b' ')
            try:
                blob = base64.b64decode(b64, validate=True)
            except Exception:  # pylint: disable=broad-except
                blob = b''
            if len(blob) != 524 or int.from_bytes(blob[8:264], 'little') != n or sep != b' ' or b'@' not in comment or b' ' in comment.strip():
                viol.append({'msg': 'generation %d (%s over an existing public key file): the file is not "<base64 of the 524-byte blob of this key> user@host": %r...%r' % (gen, step, raw[:12], raw[-24:])})
    if len(set(sigs)) != 3:
        viol.append({'msg': 'three different keys produced %d distinct signatures' % len(set(sigs))})
    return {'outcome': (params['signer'], len(viol)), 'viol': viol, 'nontrivial': (params['signer'], params['order']), 'sample': dict(params, generations=3), 'trans': 9}


def auth_codes():
    """Code objects of every Python function of the three signer modules and of the rsa.pkcs1 functions the pure-Python signer
    runs through: the scheduler may switch threads before each of their lines."""
    import importlib
    import types
    codes = []

    def add(obj):
        for v in list(vars(obj).values()):
            f = getattr(v, '__func__', v)
            if isinstance(f, types.FunctionType):
                codes.append(f.__code__)
    for name in ('adb_shell.auth.sign_pythonrsa', 'adb_shell.auth.sign_cryptography', 'adb_shell.auth.sign_pycryptodome'):
        try:
            m = importlib.import_module(name)
        except ImportError:
            continue
        add(m)
        for v in list(vars(m).values()):
            if isinstance(v, type) and v.__module__ == name:
                add(v)
    try:
        from rsa import pkcs1
        for fn in ('compute_hash', 'sign_hash', 'sign', '_pad_for_signing'):
            if hasattr(pkcs1, fn):
                codes.append(getattr(pkcs1, fn).__code__)
    except ImportError:
        pass
    return codes


_WARM = set()


def run_concurrent(params, ch):
    """Two threads sign different tokens at the same time (one shared signer object, or two signers of different keys): every
    schedule with <=k preemptions at line granularity inside the signer modules; each signature must equal the one produced alone."""
    from ..sched import Scheduler
    if 'keys_pem' in params:
        base = os.path.join(init_tmp(), 'replay-keys')
        os.makedirs(base, exist_ok=True)
        paths = []
        for i, (pem, pub) in enumerate(params['keys_pem']):
            pth = os.path.join(base, 'conc%d' % i)
            open(pth, 'wb').write(pem)
            open(pth + '.pub', 'wb').write(pub)
            paths.append(pth)
        params = dict(params, keys=paths)
    kind = params['signer']
    if kind not in _WARM:
        _WARM.add(kind)
        from ..chooser import FixedChooser
        run_concurrent(params, FixedChooser())
    paths = params['keys']
    signers = [make_signer(kind, paths[0])]
    signers.append(signers[0] if params['shared'] else make_signer(kind, paths[1]))
    toks = [bytes(range(20)), bytes(range(100, 120))]
    alone = [bytes(signers[i].Sign(toks[i])) for i in (0, 1)]
    sc = Scheduler(ch, max_steps=4000, trace_codes=auth_codes())
    out = [None, None]

    def body(i):
        def f():
            out[i] = bytes(signers[i].Sign(toks[i]))
        return f
    sc.spawn(body(0), 'sign0')
    sc.spawn(body(1), 'sign1')
    sc.run()
    viol = []
    if sc.verdict:
        viol.append({'msg': 'scheduler verdict: %s' % sc.verdict})
    for i in (0, 1):
        if out[i] != alone[i]:
            what = 'the signature of the OTHER thread\'s token' if out[i] == alone[1 - i] else 'a signature that is not the one it produces alone'
            viol.append({'msg': '%s: thread %d signing concurrently (%s) returned %s' % (kind, i, 'one shared signer' if params['shared'] else 'two signers, two keys', what)})
    if viol and 'keys_pem' not in params:
        rp = dict(params, keys_pem=[[open(k, 'rb').read(), open(k + '.pub', 'rb').read()] for k in paths])
        for v in viol:
            v['replay_params'] = rp
    return {'outcome': (kind, params['shared'], out[0] == alone[0], out[1] == alone[1]), 'viol': viol, 'states': sc.states, 'trans': sc.steps,
            'nontrivial': (kind, params['shared'], tuple(ch.choices)), 'sample': dict({k: v for k, v in params.items() if k != 'keys'}, scheduling_points=sc.steps, preemptions=sc.preemptions)}


def parts(tier):
    common.import_repo()
    base = os.path.join(init_tmp(), 'keys')
    os.makedirs(base, exist_ok=True)
    k = 1 if tier == 'quick' else 4
    keys = []
    for i in range(k):
        p = os.path.join(base, 'seeded%d' % i)
        seeded_key(i, p)
        keys.append(p)
    p3 = os.path.join(base, 'exp3.key')            # public exponent 3 (adbd accepts 3 and 65537); a dotted file name
    seeded_key(1000, p3, e=3)
    keys.append(p3)
    # a committed key whose rr = 2^4096 mod n needs only 2029 bits (about one key in 65536): the rr field of the blob has leading zero
    # bytes that must sit at the most significant (last, little-endian) end
    fx = os.path.join(os.path.dirname(os.path.dirname(os.path.abspath(__file__))), 'fixtures', 'short_rr.pem')
    if os.path.exists(fx):
        import shutil
        from adb_shell.auth.keygen import write_public_keyfile
        ps = os.path.join(base, 'short-rr')
        shutil.copy(fx, ps)
        write_public_keyfile(ps, ps + '.pub')
        keys.append(ps)
    from adb_shell.auth.keygen import keygen

    def top_bit(path):
        n = load_numbers(path)[1]
        return ((-pow(n, -1, 1 << 32)) % (1 << 32)) >> 31
    for i in range(k):
        p = os.path.join(base, 'fresh%d' % i)
        keygen(p)
        keys.append(p)
    pd = os.path.join(base, 'fresh0.v2')           # a second pair next to fresh0 / fresh0.pub whose name only adds a suffix
    keygen(pd)
    keys.append(pd)
    # both values of the top bit of n0inv must occur among the keys (an inverse computed modulo 2^31 is right for half of all keys)
    extra = 0
    while len({top_bit(p) for p in keys}) < 2 and extra < 12:
        p = os.path.join(base, 'fresh-extra%d' % extra)
        keygen(p)
        extra += 1
        if top_bit(p) not in {top_bit(q) for q in keys}:
            keys.append(p)
    nt = len(tokens())
    step = 12
    sc = [{'key': p, 'signer': s, 'lo': lo, 'hi': min(nt, lo + step)} for p in keys for s in SIGNERS for lo in range(0, nt, step)]
    for p in keys:
        extra = [[a, b] for a, b in short_sig_tokens(p)]
        sc += [{'key': p, 'signer': s, 'lo': 0, 'hi': 0, 'extra': extra} for s in SIGNERS]
    out = [Part('signatures', sc, run_sign, what='%d keys x 3 signers x %d token shapes' % (len(keys), nt), bound='%d signatures' % (len(keys) * 3 * nt), chunk=1)]
    out.append(Part('regenerate-same-path', [{'signer': s, 'order': o} for s in SIGNERS for o in (0, 1)], run_regen, what='key pair regenerated at the same path and re-loaded, three generations',
                    bound='3 signers x 2 load orders', min_outcomes=1, chunk=1))
    kp = 1 if tier == 'quick' else 2
    out.append(Part('concurrent-signers', [{'signer': s, 'shared': sh, 'keys': [keys[0], keys[1]]} for s in SIGNERS for sh in (True, False)], run_concurrent, {'sched': kp},
                    what='two threads signing different tokens at once (one shared signer object / two signers of different keys): all schedules at line granularity inside the signer modules',
                    bound='preemptions <= %d' % kp, min_outcomes=1, chunk=1))
    out.append(Part('public-key-blob', [{'key': p} for p in keys], run_blob, what='Android RSAPublicKey structure of every key, decoded independently', bound='%d keys' % len(keys),
                    min_outcomes=1, chunk=1))
    return out
