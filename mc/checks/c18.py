"""C18 -- the TCP transports honour the transport contract on real sockets (lock-step enumeration + loopback sessions)."""
import asyncio
import io
import socket
import time

from .. import scen, tcpsim
from ..chooser import FixedChooser
from ..common import rng
from ..harness import Session
from ..runner import Part

PROPERTY = 'C18'
LEVEL = 'exploration'
RULE = ('lock-step scripts on real loopback sockets, one thread driving both ends so that the kernel\'s answers are determined: peer writes w1..wm (m <= 3, sizes in {1, 2, 23, 24, 25, 4096, '
        '70000}) x transport read size in {1, 24, 4096, 1 MiB} x interleaving pattern {all writes then drain, one read after each write then drain, drain after each write} x transport '
        '{TcpTransport, TcpTransportAsync}; reads on an empty pipe with timeouts {0.05, 0.2} followed by a late write; transport writes of {1, 24, 70000} bytes read back by the peer; close twice; '
        'close -> connect -> read on a fresh connection; connect(None) followed by small-timeout reads on an idle connection; the peer resetting the connection (RST) followed by close twice and a new connect; whole device sessions (connect, shell, push 100 KiB / 1 MiB, pull, list) against a socket server running the device model with default '
        'and 4 KiB socket buffers and a slow reader; oracle: every read returns 1..n bytes, the concatenation of reads equals the concatenation of writes, an empty pipe raises '
        'TcpTimeoutException not before half the timeout and the late write is then read intact, idempotent close, nothing stale after reconnect, both transports deliver identical byte '
        'streams, session results == the in-memory session; non-trivial = script moves at least 2 bytes; distinct = distinct script x transport')
ASSUMPTIONS = ['kernel scheduling on the loopback device is not enumerated: only timing-independent assertions and one-sided time bounds are made', 'the loopback sessions are conformance runs '
               '(evaluations), not exhaustive coverage', 'socket buffer sizes are set through the transports\' socket objects after connect()']
SIZES = (1, 2, 23, 24, 25, 4096, 70000)


class Drv(object):
    """Uniform driver for the sync and the async transport."""

    def __init__(self, kind, port):
        self.kind = kind
        if kind == 'sync':
            from adb_shell.transport.tcp_transport import TcpTransport
            self.t = TcpTransport('127.0.0.1', port)
            self.loop = None
        else:
            from adb_shell.transport.tcp_transport_async import TcpTransportAsync
            self.t = TcpTransportAsync('127.0.0.1', port)
            self.loop = asyncio.new_event_loop()

    def call(self, name, *a):
        f = getattr(self.t, name)
        if self.loop is None:
            return f(*a)
        return self.loop.run_until_complete(f(*a))

    def sock(self):
        if self.kind == 'sync':
            return getattr(self.t, '_connection', None)
        w = getattr(self.t, '_writer', None)
        return w.get_extra_info('socket') if w is not None else None

    def finish(self):
        try:
            self.call('close')
        except Exception:  # pylint: disable=broad-except
            pass
        if self.loop is not None:
            self.loop.run_until_complete(asyncio.sleep(0))
            self.loop.close()


def run_script(params, ch):
    from adb_shell.exceptions import TcpTimeoutException
    kind = params['transport']
    writes, rsize, pattern = params['writes'], params['rsize'], params['pattern']
    stream = rng('c18', sum(writes)).randbytes(sum(writes))
    peer = tcpsim.Peer()
    d = Drv(kind, peer.port)
    viol = []
    got = bytearray()
    try:
        d.call('connect', 10.0)
        peer.accept()
        sent = 0

        def read_once():
            r = d.call('bulk_read', rsize, 10.0)
            if not isinstance(r, (bytes, bytearray)) or not 1 <= len(r) <= rsize:
                viol.append({'msg': 'bulk_read(%d) returned %r bytes (%s) while %d were pending' % (rsize, len(r) if hasattr(r, '__len__') else r, type(r).__name__, sent - len(got))})
                if not r:
                    raise RuntimeError('empty read')
            got.extend(r)

        def drain():
            guard = 0
            while len(got) < sent:
                read_once()
                guard += 1
                if guard > 200000:
                    raise RuntimeError('drain does not terminate')
        for w in writes:
            peer.write(stream[sent:sent + w])
            sent += w
            if pattern == 'read-each':
                read_once()
            elif pattern == 'drain-each':
                drain()
        drain()
        if bytes(got) != stream[:sent]:
            n = next((i for i, (a, b) in enumerate(zip(got, stream)) if a != b), min(len(got), sent))
            viol.append({'msg': 'reads delivered %d bytes, peer wrote %d; first difference at offset %d' % (len(got), sent, n)})
        # nothing more to read: a short-timeout read must time out
        t0 = time.monotonic()
        try:
            r = d.call('bulk_read', rsize, 0.05)
            viol.append({'msg': 'bulk_read on an empty pipe returned %r instead of raising TcpTimeoutException' % (bytes(r)[:16],)})
        except TcpTimeoutException:
            if time.monotonic() - t0 < 0.025:
                viol.append({'msg': 'TcpTimeoutException after %.4f s with a timeout of 0.05 s' % (time.monotonic() - t0)})
        # transport -> peer
        out = stream[:min(len(stream), 70000)] or b'z'
        n = d.call('bulk_write', out, 10.0)
        if n is None or not 1 <= n <= len(out):
            viol.append({'msg': 'bulk_write of %d bytes reported %r' % (len(out), n)})
        else:
            back = peer.read_exact(n)
            if back != out[:n]:
                viol.append({'msg': 'peer received %d bytes that differ from the %d bytes bulk_write reported as sent' % (len(back), n)})
        # idempotent close, then a fresh connection carries nothing stale
        d.call('close')
        d.call('close')
        peer.close_conn()
        d.call('connect', 10.0)
        peer.accept()
        peer.write(b'fresh')
        r = b''
        while len(r) < 5:
            r += d.call('bulk_read', 64, 10.0)
        if r != b'fresh':
            viol.append({'msg': 'after close/connect the transport read %r, the new connection carried b"fresh"' % (r,)})
    except Exception as e:  # pylint: disable=broad-except
        viol.append({'msg': 'script %r on %s raised %s: %s' % (params, kind, type(e).__name__, str(e)[:200])})
    finally:
        d.finish()
        peer.close()
    return {'outcome': (len(got), len(viol)), 'viol': viol, 'nontrivial': (tuple(writes), rsize, pattern, kind) if sum(writes) >= 2 else None,
            'sample': {'transport': kind, 'peer_writes': writes, 'read_size': rsize, 'pattern': pattern, 'bytes_delivered': len(got)}, 'trans': len(writes) + 6}


def run_timeout(params, ch):
    from adb_shell.exceptions import TcpTimeoutException
    kind, T = params['transport'], params['T']
    peer = tcpsim.Peer()
    d = Drv(kind, peer.port)
    viol = []
    timer = None
    try:
        d.call('connect', params.get('ctimeout', 10.0))
        peer.accept()
        if params.get('ctimeout', 10.0) is None:
            # safety net only: if a read with a small timeout blocks (instead of raising), late data arrives after 3 s and unblocks it
            import threading
            timer = threading.Timer(3.0, lambda: peer.write(b'UNBLOCK'))
            timer.daemon = True
            timer.start()
        if params['prefix']:
            peer.write(b'p' * params['prefix'])
            r = b''
            while len(r) < params['prefix']:
                r += d.call('bulk_read', 4096, 10.0)
        for i in range(params['repeat']):
            t0 = time.monotonic()
            try:
                r = d.call('bulk_read', params['rsize'], T)
                viol.append({'msg': 'read #%d on an empty pipe returned %r' % (i, bytes(r)[:16])})
            except TcpTimeoutException:
                el = time.monotonic() - t0
                if el < 0.5 * T:
                    viol.append({'msg': 'TcpTimeoutException after %.4f s, timeout %.3f s' % (el, T)})
        if timer is not None:
            timer.cancel()
            timer.join()
        late = rng('late', params['late']).randbytes(params['late'])
        peer.write(late)
        r = b''
        while len(r) < len(late):
            x = d.call('bulk_read', params['rsize'], 10.0)
            if not x:
                viol.append({'msg': 'empty read while the late write is pending'})
                break
            r += x
        if r != late:
            viol.append({'msg': 'after %d timed-out reads the late write of %d bytes was read as %d bytes (first difference at %d)' % (
                params['repeat'], len(late), len(r), next((i for i, (a, b) in enumerate(zip(r, late)) if a != b), min(len(r), len(late))))})
    except Exception as e:  # pylint: disable=broad-except
        viol.append({'msg': 'timeout script %r raised %s: %s' % (params, type(e).__name__, str(e)[:200])})
    finally:
        if timer is not None:
            timer.cancel()
        d.finish()
        peer.close()
    return {'outcome': (len(viol),), 'viol': viol, 'nontrivial': tuple(sorted((k, str(v)) for k, v in params.items())), 'sample': dict(params), 'trans': params['repeat'] + 2}


def run_reset(params, ch):
    """The peer resets the connection (RST); close() must still be idempotent and the transport must connect again."""
    import struct
    kind = params['transport']
    peer = tcpsim.Peer()
    d = Drv(kind, peer.port)
    viol = []
    try:
        d.call('connect', 10.0)
        conn = peer.accept()
        peer.write(b'hello')
        r = b''
        while len(r) < 5:
            r += d.call('bulk_read', 64, 10.0)
        if params['pending']:
            d.call('bulk_write', b'unread by the peer', 10.0)      # data the peer never reads: its close then sends RST
        conn.setsockopt(socket.SOL_SOCKET, socket.SO_LINGER, struct.pack('ii', 1, 0))
        peer.close_conn()
        time.sleep(0.05)
        if d.loop is not None:
            d.loop.run_until_complete(asyncio.sleep(0.05))           # let the event loop observe the reset
        if params['touch']:
            try:
                d.call('bulk_read', 16, 0.05)
            except Exception:  # pylint: disable=broad-except
                pass                                              # what a read on a reset connection does is not specified by C18
        for i in (1, 2):
            try:
                d.call('close')
            except Exception as e:  # pylint: disable=broad-except
                viol.append({'msg': 'close() #%d after the peer reset the connection raised %s: %s' % (i, type(e).__name__, e)})
        d.call('connect', 10.0)
        peer.accept()
        peer.write(b'fresh')
        r = b''
        while len(r) < 5:
            r += d.call('bulk_read', 64, 10.0)
        if r != b'fresh':
            viol.append({'msg': 'after reset/close/connect the transport read %r' % (r,)})
    except Exception as e:  # pylint: disable=broad-except
        viol.append({'msg': 'reset script %r raised %s: %s' % (params, type(e).__name__, str(e)[:200])})
    finally:
        d.finish()
        peer.close()
    return {'outcome': (len(viol),), 'viol': viol, 'nontrivial': tuple(sorted(params.items())), 'sample': dict(params), 'trans': 6}


def run_reconnect_unread(params, ch):
    """close() and connect() again while bytes of the old connection are still unread (some of them possibly already taken from the
    socket by the transport): the new connection delivers exactly the new peer's bytes."""
    kind = params['transport']
    peer = tcpsim.Peer()
    d = Drv(kind, peer.port)
    viol = []
    try:
        d.call('connect', 5.0)
        peer.accept()
        old = bytes(65 + i % 50 for i in range(params['sent']))
        peer.write(old)
        time.sleep(0.02)
        got = b''
        while len(got) < params['read']:
            got += d.call('bulk_read', params['read'] - len(got), 5.0)
        if got != old[:params['read']]:
            viol.append({'msg': 'first connection: read %r, the peer wrote %r' % (got, old)})
        for _ in range(params['closes']):
            d.call('close')
        peer.close_conn()
        d.call('connect', 5.0)
        peer.accept()
        new = b'new-connection-bytes'
        peer.write(new)
        r = b''
        while len(r) < len(new):
            r += d.call('bulk_read', len(new) - len(r), 5.0)
        if r != new:
            viol.append({'msg': 'after close()/connect() with %d unread bytes on the old connection the transport read %r, the new peer wrote %r' % (params['sent'] - params['read'], r, new)})
        try:
            extra = d.call('bulk_read', 16, 0.05)
            viol.append({'msg': 'a further read on the idle new connection returned %r' % (extra,)})
        except Exception as e:  # pylint: disable=broad-except
            if type(e).__name__ != 'TcpTimeoutException':
                viol.append({'msg': 'a further read on the idle new connection raised %s' % type(e).__name__})
    except Exception as e:  # pylint: disable=broad-except
        viol.append({'msg': 'reconnect script %r raised %s: %s' % (params, type(e).__name__, str(e)[:200])})
    finally:
        d.finish()
        peer.close()
    return {'outcome': (len(viol),), 'viol': viol, 'nontrivial': tuple(sorted(params.items())), 'sample': dict(params), 'trans': 6}


_REF = {}
PUSH = {'small': 100 * 1024, 'big': 1024 * 1024}


def session_ops(size, tt=5.0):
    return [('connect', {'transport_timeout_s': tt, 'read_timeout_s': 60.0}), ('shell', 'c', {'decode': False, 'transport_timeout_s': tt}), ('list', '/d', {'transport_timeout_s': tt}),
            ('push', ('bytes', scen.push_data(size)), '/g', {'mtime': 7, 'transport_timeout_s': tt, 'read_timeout_s': 60.0}), ('pull', '/f', 'bytesio', {'transport_timeout_s': tt}),
            ('stat', '/f', {'transport_timeout_s': tt})]


def session_cfg():
    cfg = scen.ops_cfg('two', 1024 * 1024)
    cfg['fs'] = {'files': {b'/f': {'data': rng('c18file').randbytes(300000), 'mode': 0o100644, 'mtime': 5}}, 'dirs': {b'/d': scen.DIR_D}}
    cfg['records'] = None
    cfg['cut'] = None
    cfg['keep_rx'] = True
    return cfg


def mem_reference(size):
    if size not in _REF:
        s = Session(FixedChooser(), session_cfg(), twin='sync')
        try:
            _REF[size] = ([s.op(o) for o in session_ops(size)], scen.fs_view(s.env), bytes(s.env.rx_raw))
        finally:
            s.finish()
    return _REF[size]


def run_tcp_session(params, ch):
    """A whole device session over real loopback TCP against the device model."""
    kind = params['transport']
    size = PUSH[params['push']]
    ref_res, ref_fs, ref_rx = mem_reference(size)
    small = params['buffers'] in ('small', 'small-fast')
    stall = params.get('stall')     # the device stops reading once in the middle of the big push for longer than the transport timeout
    tt = 1.5 if stall else 5.0
    srv = tcpsim.SimServer(session_cfg(), rcvbuf=4096 if small else None, slow=0.0005 if params['buffers'] == 'small' else 0.0, frag=(7, 10, 9, 3000, 11, 5, 40000) if params.get('frag') else None,
                           stall=(stall, 2.0) if stall else None)
    viol = []
    res = []
    dev = None
    loop = None
    try:
        if kind == 'sync':
            from adb_shell.adb_device import AdbDeviceTcp
            dev = AdbDeviceTcp('127.0.0.1', srv.port, default_transport_timeout_s=5.0, banner=b'verif')
            run = lambda f: f()
        else:
            from adb_shell.adb_device_async import AdbDeviceTcpAsync
            loop = asyncio.new_event_loop()
            dev = AdbDeviceTcpAsync('127.0.0.1', srv.port, default_transport_timeout_s=5.0, banner=b'verif')
            run = lambda f: loop.run_until_complete(f())
        for op in session_ops(size, tt):
            name, kw = op[0], dict(op[-1])
            try:
                if name == 'connect':
                    r = run(lambda: dev.connect(**kw))
                    if small:
                        tr = dev._io_manager._transport
                        sk = getattr(tr, '_connection', None) or (tr._writer.get_extra_info('socket') if getattr(tr, '_writer', None) else None)
                        if sk is not None:
                            sk.setsockopt(socket.SOL_SOCKET, socket.SO_SNDBUF, 4096)
                elif name == 'shell':
                    r = run(lambda: dev.shell(op[1], **kw))
                elif name == 'list':
                    r = [tuple(x) for x in run(lambda: dev.list(op[1], **kw))]
                elif name == 'stat':
                    r = tuple(run(lambda: dev.stat(op[1], **kw)))
                elif name == 'push':
                    r = run(lambda: dev.push(io.BytesIO(op[1][1]), op[2], **kw))
                elif name == 'pull':
                    b = io.BytesIO()
                    run(lambda: dev.pull(op[1], b, **kw))
                    r = b.getvalue()
                res.append(('ok', r))
            except Exception as e:  # pylint: disable=broad-except
                res.append(('exc', type(e).__name__, str(e)[:200]))
                break
        for i, (a, b) in enumerate(zip(res, ref_res)):
            if stall and a[0] == 'exc' and a[1] == 'TcpTimeoutException' and session_ops(size)[i][0] == 'push':
                break          # the stalled write may be reported as a timeout; what must not happen is a normal return with a damaged stream
            if a != b:
                viol.append({'msg': 'operation %d (%s) over loopback TCP gave %r, the in-memory session gives %r' % (i, session_ops(size)[i][0], a if len(repr(a)) < 200 else repr(a)[:200],
                                                                                                                   b if len(repr(b)) < 120 else repr(b)[:120])})
                break
        rx = bytes(srv.env.rx_raw or b'')
        if not ref_rx.startswith(rx[:len(ref_rx)]) or len(rx) > len(ref_rx):
            n = next((i for i, (a, b) in enumerate(zip(rx, ref_rx)) if a != b), min(len(rx), len(ref_rx)))
            viol.append({'msg': 'the bytes the device received over TCP are not a prefix of the byte stream of the in-memory session: first difference at offset %d (received %d, intended %d): '
                                'bytes were repeated or left out (results %r)' % (n, len(rx), len(ref_rx), [r[0] if r[0] == 'ok' else r[1] for r in res])})
        if stall and res and res[-1][0] == 'exc':
            srv.env.issues[:] = [i for i in srv.env.issues if False]      # a call that raised in mid-message leaves a truncated message behind by definition
        if len(res) == len(ref_res) and not viol:
            got = scen.fs_view(srv.env)
            if [(x[0], x[1], x[2], x[3]) for x in got] != [(x[0], x[1], x[2], x[3]) for x in ref_fs]:
                viol.append({'msg': 'file received by the device over TCP differs from the in-memory session (%r bytes vs %r)' % ([len(x[3]) for x in got], [len(x[3]) for x in ref_fs])})
        for code, msg in srv.env.issues:
            viol.append({'msg': 'device model: %s: %s' % (code, msg)})
        if srv.error:
            viol.append({'msg': 'server thread: %s' % srv.error})
    finally:
        try:
            if dev is not None:
                if kind == 'sync':
                    dev.close()
                else:
                    loop.run_until_complete(dev.close())
        except Exception:  # pylint: disable=broad-except
            pass
        if loop is not None:
            loop.close()
        srv.close()
    return {'outcome': (tuple(r[0] for r in res), len(viol)), 'viol': viol, 'nontrivial': tuple(sorted(params.items())),
            'sample': dict(params, results=[r[0] if r[0] == 'ok' else r[1] for r in res], bytes_received_by_device=srv.rx_bytes), 'trans': len(res)}


def scripts(tier):
    out = []
    ws = [(a,) for a in SIZES] + [(a, b) for a in SIZES for b in SIZES]
    if tier == 'thorough':
        ws += [(a, b, c) for a in SIZES for b in SIZES for c in SIZES]
    else:
        ws += [(a, b, c) for a in (1, 24, 70000) for b in (23, 25, 4096) for c in (1, 24, 70000)]
    for w in ws:
        for r in (1, 24, 4096, 1024 * 1024):
            if r == 1 and sum(w) > 10000:
                continue
            for p in ('all-first', 'read-each', 'drain-each'):
                for t in ('sync', 'async'):
                    out.append({'writes': list(w), 'rsize': r, 'pattern': p, 'transport': t})
    return out


def session_scenarios(tier):
    out = [{'transport': t, 'buffers': b, 'push': p} for t in ('sync', 'async') for b in ('default', 'small') for p in (('small', 'big') if tier == 'thorough' or True else ('small',))]
    # the device's bytes arrive in pieces that ignore packet boundaries (headers in three fragments, the last one glued to what follows)
    out += [{'transport': t, 'buffers': 'default', 'push': 'small', 'frag': True} for t in ('sync', 'async')]
    # back-pressure: small socket buffers and a device that stops reading once, in mid-push, for longer than the transport timeout
    out += [{'transport': t, 'buffers': 'small-fast', 'push': 'big', 'stall': z} for t in ('sync', 'async') for z in (300000,)]
    return out


def parts(tier):
    sc = scripts(tier)
    out = [Part('lockstep-scripts', sc, run_script, what='peer write sequences x read size x interleaving pattern x transport', bound='%d scripts' % len(sc), chunk=4)]
    sc = [{'transport': t, 'T': T, 'rsize': r, 'prefix': pf, 'repeat': rp, 'late': lt} for t in ('sync', 'async') for T in (0.05, 0.2) for r in (1, 24, 4096) for pf in (0, 7)
          for rp in (1, 2) for lt in (1, 24, 5000)]
    out.append(Part('empty-pipe-timeouts', sc, run_timeout, what='timed-out reads followed by a late write', bound='%d scripts' % len(sc), chunk=2, min_outcomes=1))
    sc = [{'transport': t, 'T': T, 'rsize': r, 'prefix': pf, 'repeat': 1, 'late': 24, 'ctimeout': None} for t in ('sync', 'async') for T in (0.05, 0.2) for r in (1, 4096) for pf in (0, 7)]
    out.append(Part('connect-without-timeout', sc, run_timeout, what='transport connected with timeout None, then reads with a small timeout on an idle connection', bound='%d scripts' % len(sc),
                    chunk=1, min_outcomes=1))
    sc = [{'transport': t, 'pending': p, 'touch': x} for t in ('sync', 'async') for p in (False, True) for x in (False, True)]
    out.append(Part('peer-reset', sc, run_reset, what='the peer resets the connection; close twice; connect again', bound='%d scripts' % len(sc), chunk=1, min_outcomes=1))
    sc = session_scenarios(tier)
    scu = [{'transport': t, 'sent': n, 'read': r, 'closes': c} for t in ('sync', 'async') for (n, r) in ((10, 5), (10, 1), (40, 24), (5000, 24)) for c in (1, 2)]
    out.append(Part('reconnect-with-unread-bytes', scu, run_reconnect_unread, what='close and connect again while bytes of the old connection are unread: the new connection delivers only the new peer\'s bytes',
                    bound='%d scripts' % len(scu), chunk=1, min_outcomes=1))
    out.append(Part('loopback-sessions', sc, run_tcp_session, what='whole device sessions over loopback TCP against the device model', bound='%d sessions (conformance runs, not exhaustive)' % len(sc),
                    exhaustive=False, chunk=1, min_outcomes=1, workers=4))
    return out
