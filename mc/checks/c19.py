"""C19 — explicit-state BFS of the real _AdbPacketStore against a nondeterministic reference model.

State = (canonical form of the real store, set of admissible reference states).  Every alphabet symbol is
applied at every reachable state; mutating symbols create successors (rebuilt on a fresh real object by
replaying the history), read-only symbols are checked and must leave the state unchanged.
"""
import multiprocessing
import time

from .. import common, explore
from ..runner import Part

PROPERTY = 'C19'
LEVEL = 'model_checking'
RULE = ('explicit-state BFS: states are (real store canonical form incl. empty queues and insertion order, set of admissible '
        'reference states); every symbol of the alphabet {put x3 cmds, find, find_allow_zeros, contains, get, clear, clear_all, '
        'len, stream_opened} over the id domain (wildcard None included for lookups) is applied at every reachable state up to the stated '
        'depth; a case is non-trivial when the store holds at least one pending packet before the symbol is applied; '
        'distinct = distinct (state, symbol) pairs')
ASSUMPTIONS = ['callers respect get()\'s documented precondition ((arg0, arg1) in store)', 'state deduplication uses a structural canonical form of the whole object graph of the store (all attributes, aliasing explicit), so hidden state separates states',
               'the store never inspects packet payloads (tags are renumbered in the canonical form)',
               'putting a CLSE on a pair with no entry (never parked, or forgotten by a retrieved CLSE / clear) is unspecified by C19 (both outcomes admissible); a pair whose packets were all retrieved keeps its entry, and a CLSE parked for it must be kept']

OKAY, WRTE, CLSE = b'OKAY', b'WRTE', b'CLSE'


def new_store():
    from adb_shell.hidden_helpers import _AdbPacketStore
    return _AdbPacketStore()


# ----------------------------------------------------------------------------- reference model
def matches(pair, x0, x1):
    return (x0 is None or pair[0] == x0) and (x1 is None or pair[1] == x1)


class Ref(object):
    """A set of admissible reference states; each state is a dict pair -> tuple of (cmd, tag).  A key whose tuple is empty is an
    entry whose packets have all been retrieved (the stream is known, nothing is pending): lookups and len() ignore it, but a CLSE
    parked for it must be kept -- only a CLSE for a pair without any entry is unspecified."""

    def __init__(self, cands=None):
        self.cands = cands if cands is not None else [dict()]

    def put(self, a0, a1, cmd, tag):
        out = []
        for s in self.cands:
            p = (a0, a1)
            if cmd == CLSE and p not in s:
                out.append(s)                     # dropped
            t = dict(s)
            t[p] = s.get(p, ()) + ((cmd, tag),)
            out.append(t)                         # stored
        self.cands = _uniq(out)

    def prune(self, pred):
        self.cands = [s for s in self.cands if pred(s)]
        return bool(self.cands)

    def find(self, x0, x1, r):
        def ok(s):
            have = [p for p in s if s[p] and matches(p, x0, x1)]
            if r is None:
                return not have
            return tuple(r) in have
        return self.prune(ok)

    def find_allow_zeros(self, x0, x1, r):
        pats = ((x0, x1), (x0, 0), (0, x1), (0, 0))

        def ok(s):
            have = [p for p in s if s[p] and any(matches(p, a, b) for a, b in pats)]
            if r is None:
                return not have
            return tuple(r) in have
        return self.prune(ok)

    def length(self, n):
        return self.prune(lambda s: sum(1 for q in s.values() if q) == n)

    def get(self, x0, x1, r):
        cmd, a0, a1, tag = r
        out = []
        for s in self.cands:
            p = (a0, a1)
            if not matches(p, x0, x1) or not s.get(p) or s[p][0] != (cmd, tag):
                continue
            t = dict(s)
            if cmd == CLSE:
                del t[p]                          # a retrieved CLSE forgets the stream
            else:
                t[p] = s[p][1:]                   # possibly empty: the entry stays
            out.append(t)
        self.cands = _uniq(out)
        return bool(out)

    def clear(self, a0, a1):
        out = []
        for s in self.cands:
            t = dict(s)
            t.pop((a0, a1), None)
            out.append(t)
        self.cands = _uniq(out)

    def clear_all(self):
        self.cands = [dict()]

    def any_pending(self):
        return any(q for s in self.cands for q in s.values())

    def canon(self, rank):
        return frozenset(tuple(sorted((p, tuple((c, rank[t]) for c, t in q)) for p, q in s.items())) for s in self.cands)

    def tags(self):
        return {t for s in self.cands for q in s.values() for _c, t in q}


def _uniq(states):
    seen = set()
    out = []
    for s in states:
        k = tuple(sorted(s.items()))
        if k not in seen:
            seen.add(k)
            out.append(s)
    return out


# ----------------------------------------------------------------------------- the real object
def real_canon(store):
    """Structural canonical form of the whole object graph of the store (every attribute, not only the documented
    dict of dicts of queues), with aliasing made explicit: a queue object reachable twice gets the same number.
    Hidden state such as a cache therefore separates states instead of being merged away."""
    memo = {}

    def walk(x):
        if x is None or isinstance(x, (int, str, bool, float)):
            return x
        if isinstance(x, (bytes, bytearray)):
            return bytes(x)
        if isinstance(x, (tuple, list)):
            return (type(x).__name__,) + tuple(walk(i) for i in x)
        i = id(x)
        if i in memo:
            return ('ref', memo[i])
        memo[i] = len(memo)
        n = memo[i]
        if isinstance(x, dict):
            return ('dict', n) + tuple((walk(k), walk(v)) for k, v in x.items())
        if hasattr(x, '_queue') and hasattr(x, 'get_nowait'):
            return ('queue', n) + tuple(walk(i) for i in x._queue)
        if isinstance(x, (set, frozenset)):
            return ('set', n) + tuple(sorted((walk(i) for i in x), key=repr))
        if hasattr(x, '__iter__') and hasattr(x, '__len__'):
            return ('seq', n) + tuple(walk(i) for i in x)
        if hasattr(x, '__dict__'):
            return ('obj', type(x).__name__, n) + tuple((k, walk(v)) for k, v in sorted(vars(x).items()))
        return ('opaque', type(x).__name__)
    try:
        return walk(vars(store))
    except Exception:  # pylint: disable=broad-except
        return None


def tags_in(c, out):
    if isinstance(c, bytes):
        if c.startswith(b'#'):
            out.add(c)
    elif isinstance(c, tuple):
        for i in c:
            tags_in(i, out)
    return out


def retag(c, rank):
    if isinstance(c, bytes):
        return rank.get(c, c)
    if isinstance(c, tuple):
        return tuple(retag(i, rank) for i in c)
    return c


def apply_symbol(store, ref, sym, tag):
    """Apply one symbol to the real store and the reference.  Returns an error string or None."""
    op = sym[0]
    if op == 'put':
        _, a0, a1, cmd = sym
        store.put(a0, a1, cmd, tag)
        ref.put(a0, a1, cmd, tag)
        return None
    if op == 'find':
        r = store.find(sym[1], sym[2])
        if not ref.find(sym[1], sym[2], r):
            return 'find(%r,%r) returned %r' % (sym[1], sym[2], r)
        return None
    if op == 'findz':
        r = store.find_allow_zeros(sym[1], sym[2])
        if not ref.find_allow_zeros(sym[1], sym[2], r):
            return 'find_allow_zeros(%r,%r) returned %r' % (sym[1], sym[2], r)
        return None
    if op == 'in':
        r = (sym[1], sym[2]) in store
        if r is not True and r is not False:
            return '__contains__ returned non-bool %r' % (r,)

        def ok(s):
            return r == any(q and matches(p, sym[1], sym[2]) for p, q in s.items())
        if not ref.prune(ok):
            return '(%r,%r) in store returned %r' % (sym[1], sym[2], r)
        return None
    if op == 'len':
        n = len(store)
        if not ref.length(n):
            return 'len() returned %r' % (n,)
        return None
    if op == 'get':
        r = store.get(sym[1], sym[2])
        cmd, a0, a1, data = r
        if not ref.get(sym[1], sym[2], (cmd, a0, a1, data)):
            return 'get(%r,%r) returned %r' % (sym[1], sym[2], r)
        return None
    if op == 'clear':
        store.clear(sym[1], sym[2])
        ref.clear(sym[1], sym[2])
        return None
    if op == 'clear_all':
        store.clear_all()
        ref.clear_all()
        return None
    if op == 'opened':
        # registering an acknowledged OPEN (the K1 repair) parks nothing: no observable effect on any lookup, count or retrieval;
        # its only licensed effect -- keeping a CLSE put on a pair without entry -- is already admissible in the reference
        if hasattr(store, 'stream_opened'):
            store.stream_opened(sym[1], sym[2])
        return None
    raise common.HarnessError('unknown symbol %r' % (sym,))


def alphabet(dom):
    wild = list(dom) + [None]
    ro = [('find', a, b) for a in wild for b in wild] + [('findz', a, b) for a in wild for b in wild] + \
         [('in', a, b) for a in wild for b in wild] + [('len',)]
    mut = [('put', a, b, c) for a in dom for b in dom for c in (OKAY, WRTE, CLSE)] + \
          [('get', a, b) for a in wild for b in wild] + [('clear', a, b) for a in dom for b in dom] + [('clear_all',)] + \
          [('opened', a, b) for a in dom for b in dom]
    return ro, mut


def build(hist):
    """Fresh real store + reference, history replayed; returns (store, ref, error)."""
    store, ref = new_store(), Ref()
    for i, sym in enumerate(hist):
        err = apply_symbol(store, ref, sym, b'#%d' % i)
        if err:
            return store, ref, err
    return store, ref, None


class _NoRef(object):
    """Reference stand-in used when only the real object has to be rebuilt (the history is already validated)."""

    def __getattr__(self, _name):
        return lambda *a, **k: True


def build_real(hist):
    store, ref = new_store(), _NoRef()
    for i, sym in enumerate(hist):
        apply_symbol(store, ref, sym, b'#%d' % i)
    return store


def key_of(store, ref, hist):
    rc = real_canon(store)
    if rc is None:
        return ('hist', tuple(hist))
    tags = tags_in(rc, set()) | ref.tags()
    rank = {t: i for i, t in enumerate(sorted(tags, key=lambda b: int(b[1:])))}
    return (retag(rc, rank), ref.canon(rank))


_DOM = {}


def _expand(hists):
    """Worker: expand a chunk of frontier histories.  Returns (successors, transitions, nontrivial, violations)."""
    ro, mut = _DOM['alpha']
    succ = []
    trans = 0
    nontriv = set()
    viol = []
    for hist in hists:
        base, bref, err = build(hist)
        if err:
            raise common.HarnessError('frontier history no longer replays: %r: %s' % (hist, err))
        k0 = key_of(base, bref, hist)
        pending = bref.any_pending()
        # read-only symbols: checked on one shared instance, state must not change
        for sym in ro:
            err = apply_symbol(base, bref, sym, b'#-1')
            trans += 1
            if pending:
                nontriv.add(explore.digest((k0, sym)))
            if err:
                viol.append((list(hist), sym, err))
                base, bref, _ = build(hist)
                continue
            if key_of(base, bref, hist) != k0:
                # pruning the admissible set is legitimate; a change of the real store is not
                b2, _r2, _ = build(hist)
                if real_canon(base) != real_canon(b2):
                    viol.append((list(hist), sym, 'read-only operation changed the store'))
                    base, bref, _ = build(hist)
        ref0 = build(hist)[1].cands
        for sym in mut:
            if sym[0] == 'get':
                if not ((sym[1], sym[2]) in base):
                    continue                       # documented precondition of get() (base is unchanged, checked above)
            st, rf = build_real(hist), Ref(list(ref0))
            try:
                err = apply_symbol(st, rf, sym, b'#%d' % len(hist))
            except Exception as e:  # pylint: disable=broad-except
                err = 'raised %s: %s' % (type(e).__name__, e)
            trans += 1
            if pending:
                nontriv.add(explore.digest((k0, sym)))
            if err:
                viol.append((list(hist), sym, err))
                continue
            succ.append((key_of(st, rf, hist + [sym]), hist + [sym]))
    return succ, trans, nontriv, viol


def bfs(dom, depth, max_states=None):
    st = explore.Stats()
    _DOM['alpha'] = alphabet(dom)
    s0, r0, _ = build([])
    seen = {key_of(s0, r0, [])}
    frontier = [[]]
    ctx = multiprocessing.get_context('fork')
    level = 0
    with ctx.Pool(common.WORKERS) as pool:
        while frontier and level <= depth:
            # at the last level only read-only symbols and mutators' own return values are checked; successors are not kept
            n = max(1, len(frontier) // (common.WORKERS * 4))
            chunks = [frontier[i:i + n] for i in range(0, len(frontier), n)]
            nxt = []
            for succ, trans, nontriv, viol in pool.imap_unordered(_expand, chunks):
                st.transitions += trans
                st.execs += trans
                st.nontrivial |= nontriv
                for hist, sym, err in viol:
                    st.n_viol += 1
                    if len(st.violations) < 25:
                        st.violations.append((0, len(hist) + 1, 0, [], [], {
                            'msg': '%s after history %r' % (err, hist),
                            'replay_params': {'history': [list(x) for x in hist], 'symbol': list(sym)}}))
                if level < depth:
                    for k, h in succ:
                        if k not in seen:
                            seen.add(k)
                            nxt.append(h)
                            if len(st.samples) < 3 and len(h) == depth:
                                st.samples.append({'history': [list(map(_show, s)) for s in h]})
            if max_states and len(seen) > max_states:
                st.caps.append('state cap %d reached at depth %d' % (max_states, level))
                break
            frontier = nxt
            st.max_depth = level
            level += 1
    st.states = {explore.digest(k) for k in seen}
    st.outcomes = {0: 1, 1: 1}     # vacuity is judged on states/transitions for this explicit-state search
    return st


def _show(x):
    return x.decode() if isinstance(x, bytes) else x


def run_one(params, ch):
    """Replay entry point: params = {'dom': [...], 'history': [...], 'symbol': [...]}."""
    hist = [tuple(s) for s in params['history']] + [tuple(params['symbol'])]
    _store, _ref, err = build(hist)
    return {'outcome': err, 'viol': [{'msg': err}] if err else []}


def parts(tier):
    tiers = {'quick': [((0, 1, 2), 3), ((0, 1), 4), ((1,), 7)], 'thorough': [((0, 1, 2), 3), ((0, 1), 5), ((1,), 9), ((0, 1, 2), 4)]}[tier]
    out = []
    for dom, depth in tiers:
        p = Part('bfs-%dx%d-depth%d' % (len(dom), len(dom), depth), [{'dom': list(dom), 'depth': depth}], run_one,
                 what='all symbols at every reachable state, id domain %r' % (dom,), bound='BFS depth %d' % depth)
        p.custom = (lambda d=dom, k=depth: bfs(d, k, max_states=700000))
        out.append(p)
    return out
