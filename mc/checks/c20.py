"""C20 -- the USB transport honours the transport contract on a conforming libusb backend (fake usb1 module)."""
from .. import fakeusb, monitor, oracle, scen
from ..chooser import FixedChooser
from ..common import HarnessError
from ..harness import Session
from ..runner import Part

PROPERTY = 'C20'
LEVEL = 'exploration'
RULE = ('a fake usb1 module (python-libusb1\'s documented surface) is placed in sys.modules and wired to the device model; (a) contract grid: timeouts {None, 0, 0.001, 0.5, 1, 2.5} x default '
        'timeout {None, 3} x read sizes {1, 24, 4096, 1 MiB} x kernel driver active/inactive x two USB devices on the bus (only one is ADB) x selection by serial / port path / first; '
        '(b) a whole AdbDeviceUsb session with backend short transfers at every placement of <=k deviations; (c) every USBError subclass raised at EVERY bulkRead/bulkWrite call index of a '
        'session, and the device unplugged at every such index (all later backend calls, the serial-number lookup included, raise USBErrorNoDevice); (d) errors while closing, use after close, double close, reconnect; oracle: claimInterface(ADB interface number) exactly once per connect after detaching an active kernel '
        'driver, bulkWrite only to the OUT and bulkRead only from the IN endpoint of the ADB interface, length == requested, timeout == int(1000 x t) (default x 1000 when None), returned data '
        'never longer than requested, libusb errors surface as UsbReadFailedError / UsbWriteFailedError, after close those same errors and no backend call, session results and host packets '
        '== the in-memory session; non-trivial = every case; distinct = distinct parameter tuple x choice list')
ASSUMPTIONS = ['mc/fakeusb.py behaves as the libusb documentation says a conforming backend behaves (trusted base)', 'connect-phase backend errors are unspecified by C20 and not asserted',
               'adbsim device model']

_MODS = {}


def mods():
    if 'ut' not in _MODS:
        _MODS['ut'], _MODS['ad'] = fakeusb.install()
    return _MODS['ut'], _MODS['ad']


def usb_session(ch, cfg, default_timeout=None, select=('serial', 'SER1'), kernel_driver=False, frag=False, faults=None, wcap=False):
    ut, ad = mods()
    s = Session(ch, cfg, twin='sync', frag=frag, wcap=wcap)
    w = fakeusb.WORLD
    w.reset()
    w.env = s.env
    w.kernel_driver = kernel_driver
    w.devices = [fakeusb.other_device(), fakeusb.adb_device('SER1', 1, (2, 3)), fakeusb.adb_device('SER2', 1, (2, 4))]
    w.faults = dict(faults or {})
    kw = {}
    if select[0] == 'serial':
        kw['serial'] = select[1]
    elif select[0] == 'port':
        kw['port_path'] = select[1]
    s.dev = ad.AdbDeviceUsb(default_transport_timeout_s=default_timeout, banner=b'verif', **kw)
    s.transport = s.dev._io_manager._transport
    return s, w


def check_calls(w, viol, default_timeout, expect_timeouts=None):
    claims = [c for c in w.calls if c[0] == 'claimInterface']
    for c in w.calls:
        if c[0] == 'bulkWrite' and c[1] != fakeusb.OUT_EP:
            viol.append({'msg': 'bulkWrite went to endpoint 0x%02x, the ADB interface\'s OUT endpoint is 0x%02x' % (c[1], fakeusb.OUT_EP)})
        if c[0] == 'bulkRead' and c[1] != fakeusb.IN_EP:
            viol.append({'msg': 'bulkRead came from endpoint 0x%02x, the ADB interface\'s IN endpoint is 0x%02x' % (c[1], fakeusb.IN_EP)})
        if c[0] in ('claimInterface', 'releaseInterface', 'kernelDriverActive', 'detachKernelDriver') and c[1] != 1:
            viol.append({'msg': '%s(%r): the ADB interface has number 1' % (c[0], c[1])})
    for m in w.issues:
        viol.append({'msg': 'backend: %s' % m})
    return claims


def run_contract(params, ch):
    ut, ad = mods()
    from adb_shell import exceptions
    T, D, size = params['T'], params['D'], params['size']
    cfg = {'shell': {b'shell:c': [b'x' * 5000]}}
    s, w = usb_session(ch, cfg, default_timeout=D, select=tuple(params['select']), kernel_driver=params['kd'])
    try:
        viol = []
        tr = s.transport
        try:
            tr.connect(T)
        except Exception as e:  # pylint: disable=broad-except
            # the backend of this part is healthy: connect() has no reason to fail (e.g. a claim before the kernel driver was detached is EBUSY)
            return {'outcome': ('connect-raised', type(e).__name__), 'viol': [{'msg': 'connect() raised %s on a healthy backend (kernel driver active: %r); backend calls %r' % (
                type(e).__name__, params['kd'], [c[0] for c in w.calls])}], 'nontrivial': tuple(sorted((k, str(v)) for k, v in params.items())), 'sample': dict(params), 'trans': len(w.calls)}
        claims = [c for c in w.calls if c[0] == 'claimInterface']
        if claims != [('claimInterface', 1)]:
            viol.append({'msg': 'connect() issued %r, expected exactly one claimInterface(1)' % (claims,)})
        if params['kd']:
            names = [c[0] for c in w.calls]
            if 'detachKernelDriver' not in names or names.index('detachKernelDriver') > names.index('claimInterface'):
                viol.append({'msg': 'an active kernel driver was not detached before claimInterface: %r' % (names,)})
        if tr._device.getSerialNumber() != 'SER1':
            viol.append({'msg': 'selection %r opened device %r' % (params['select'], tr._device.getSerialNumber())})
        want_ms = int(1000 * T) if T is not None else int(1000 * (D if D is not None else 10))
        n0 = len(w.calls)
        msg = bytes.fromhex('434e584e00000001001000000700000032020000bcb1a7b1') + b'host::\x00'
        r = tr.bulk_write(msg, T)
        if r != len(msg):
            viol.append({'msg': 'bulk_write returned %r for %d bytes accepted by the backend' % (r, len(msg))})
        try:
            got = tr.bulk_read(size, T)
            if len(got) > size or not isinstance(got, bytes):
                viol.append({'msg': 'bulk_read(%d) returned %d bytes of type %s' % (size, len(got), type(got).__name__)})
        except exceptions.UsbReadFailedError as e:
            if T != 0.001:
                viol.append({'msg': 'bulk_read raised %r on a healthy backend' % (e,)})
        bulk = [c for c in w.calls[n0:] if c[0] in ('bulkRead', 'bulkWrite')]
        for c in bulk:
            if c[3] != want_ms:
                viol.append({'msg': '%s got timeout=%r ms for transport_timeout_s=%r (default %r), expected %d' % (c[0], c[3], T, D, want_ms)})
            if c[0] == 'bulkRead' and c[2] != size:
                viol.append({'msg': 'bulkRead length %r, bulk_read was asked for %d' % (c[2], size)})
        n2 = len(w.calls)
        tr.bulk_write(b'default-timeout', None)
        dflt = int(1000 * (D if D is not None else 10))
        for c in w.calls[n2:]:
            if c[0] == 'bulkWrite' and c[3] != dflt:
                viol.append({'msg': 'after connect(%r) a bulk_write without timeout used %r ms, the default is %d ms' % (T, c[3], dflt)})
        check_calls(w, viol, D)
        # close, double close, use after close, reconnect
        tr.close()
        n1 = len(w.calls)
        tr.close()
        for name, fn, exc in (('bulk_read', lambda: tr.bulk_read(24, T), exceptions.UsbReadFailedError), ('bulk_write', lambda: tr.bulk_write(b'x', T), exceptions.UsbWriteFailedError)):
            try:
                fn()
                viol.append({'msg': '%s after close() returned normally' % name})
            except exc:
                pass
            except Exception as e:  # pylint: disable=broad-except
                viol.append({'msg': '%s after close() raised %s instead of %s' % (name, type(e).__name__, exc.__name__)})
        if len(w.calls) != n1:
            viol.append({'msg': 'backend calls after close(): %r' % (w.calls[n1:],)})
        rel = [c[0] for c in w.calls if c[0] in ('releaseInterface', 'close')]
        if rel != ['releaseInterface', 'close']:
            viol.append({'msg': 'close() issued %r, expected releaseInterface then close' % (rel,)})
        tr.connect(T)
        if [c for c in w.calls[n1:] if c[0] == 'claimInterface'] != [('claimInterface', 1)]:
            viol.append({'msg': 'reconnect after close did not claim the interface exactly once'})
        return {'outcome': (want_ms, len(w.calls)), 'viol': viol, 'nontrivial': tuple(sorted((k, str(v)) for k, v in params.items())),
                'sample': dict(params, backend_calls=[c[0] for c in w.calls][:12], timeout_ms=want_ms), 'trans': len(w.calls)}
    finally:
        fakeusb.WORLD.env = None
        s.finish()


_REF = {}


def mem_reference():
    if 'r' not in _REF:
        s = Session(FixedChooser(), scen.std_cfg(), twin='sync')
        try:
            res = [s.op(o) for o in scen.std_ops()]
            _REF['r'] = (res, monitor.host_log(s.env.events), scen.fs_view(s.env))
        finally:
            s.finish()
    return _REF['r']


def run_session(params, ch):
    from adb_shell import exceptions
    ref_res, ref_host, ref_fs = mem_reference()
    faults = {int(k): v for k, v in params.get('faults', [])}
    s, w = usb_session(ch, scen.std_cfg(), default_timeout=params.get('D'), frag=params.get('frag', False), faults=faults, wcap=params.get('wcap', False))
    if params.get('unplug') is not None:
        w.unplug_at = params['unplug']
        faults = {params['unplug']: 'nodevice'}
    try:
        viol = []
        res = []
        for o in scen.std_ops():
            r = s.op(o)
            res.append(r)
            if r[0] != 'ok':
                break
        if not faults:
            if res != ref_res:
                i = next((i for i, (a, b) in enumerate(zip(res, ref_res)) if a != b), len(res))
                viol.append({'msg': 'USB session differs from the in-memory session at operation %d: %r vs %r' % (i, res[i:i + 1], ref_res[i:i + 1])})
            if monitor.host_log(s.env.events) != ref_host:
                viol.append({'msg': 'host packets over USB differ from the in-memory session'})
            if scen.fs_view(s.env) != ref_fs:
                viol.append({'msg': 'pushed file over USB differs from the in-memory session'})
            viol += oracle.base_viol(s, completed=True)
        else:
            k = min(faults)
            name = w.calls[k][0] if k < len(w.calls) else None
            want = {'bulkRead': 'UsbReadFailedError', 'bulkWrite': 'UsbWriteFailedError'}.get(name)
            last = res[-1]
            in_pull = scen.std_ops()[len(res) - 1][0] == 'pull'      # pull may report the error met while closing its stream afterwards
            if want and in_pull and last[0] == 'exc':
                want = None
            if want and (last[0] != 'exc' or last[1] != want):
                viol.append({'msg': 'libusb %s raised by %s at backend call %d surfaced as %r, expected %s' % (faults[k], name, k, last[:2], want)})
            if want and last[0] == 'exc' and last[1] == want:
                e = s.last_exc
                if want == 'UsbReadFailedError' and not isinstance(getattr(e, 'usb_error', None), fakeusb.USBError):
                    viol.append({'msg': '%s does not carry the libusb error (usb_error=%r)' % (want, getattr(e, 'usb_error', None))})
            for i, (a, b) in enumerate(zip(res[:-1], ref_res)):
                if a != b:
                    viol.append({'msg': 'operation %d before the fault returned %r, expected %r' % (i, a, b)})
        if params.get('unplug') is not None:
            rc = s.op(('close',))
            if rc != ('ok', None):
                viol.append({'msg': 'close() after the device was unplugged gave %r' % (rc[:2],)})
        check_calls(w, viol, params.get('D'))
        claims = [c for c in w.calls if c[0] == 'claimInterface']
        if claims != [('claimInterface', 1)]:
            viol.append({'msg': 'session issued %r, expected exactly one claimInterface(1)' % (claims,)})
        want_ms = int(1000 * (params['D'] if params.get('D') is not None else 10))
        bad = sorted({c[3] for c in w.calls if c[0] in ('bulkRead', 'bulkWrite') and c[3] != want_ms})
        if bad:
            viol.append({'msg': 'bulk transfers used timeouts %r ms, default_transport_timeout_s=%r means %d' % (bad[:3], params.get('D'), want_ms)})
        return {'outcome': (tuple(r[:2] if r[0] != 'ok' else 'ok' for r in res), len(w.calls)), 'viol': viol,
                'nontrivial': (params.get('D'), tuple(map(tuple, params.get('faults', []))), tuple(ch.choices)),
                'sample': {'default_timeout': params.get('D'), 'faults': params.get('faults'), 'backend_calls': len(w.calls), 'results': [r[0] for r in res],
                           'short_transfers_at': [i for i, c in enumerate(ch.choices) if c][:4]}, 'trans': len(w.calls)}
    finally:
        fakeusb.WORLD.env = None
        s.finish()


def run_close_errors(params, ch):
    from adb_shell import exceptions
    s, w = usb_session(ch, scen.std_cfg(), default_timeout=None)
    try:
        viol = []
        r = s.op(('connect',))
        r2 = s.op(('shell', 'cmd1', {'decode': False}))
        n0 = len(w.calls)
        # the next backend calls are releaseInterface (n0) and close (n0 + 1)
        w.faults = {n0 + params['at']: params['err']}
        rc = s.op(('close',))
        if rc != ('ok', None):
            viol.append({'msg': 'close() with libusb %s in %s gave %r' % (params['err'], ['releaseInterface', 'close'][params['at']], rc[:2])})
        n1 = len(w.calls)
        tr = s.transport
        for name, fn, exc in (('bulk_read', lambda: tr.bulk_read(24, 1), exceptions.UsbReadFailedError), ('bulk_write', lambda: tr.bulk_write(b'x', 1), exceptions.UsbWriteFailedError)):
            try:
                fn()
                viol.append({'msg': '%s after a close() that met libusb %s returned normally' % (name, params['err'])})
            except exc:
                pass
            except Exception as e:  # pylint: disable=broad-except
                viol.append({'msg': '%s after close() raised %s' % (name, type(e).__name__)})
        rc2 = s.op(('close',))
        if len(w.calls) != n1:
            viol.append({'msg': 'backend calls after close(): %r' % ([c[0] for c in w.calls[n1:]],)})
        r3 = s.op(('shell', 'cmd1', {'decode': False}))
        if r3[:2] != ('exc', 'AdbConnectionError'):
            viol.append({'msg': 'shell after close() gave %r' % (r3[:2],)})
        return {'outcome': (rc[:2], rc2[:2]), 'viol': viol, 'nontrivial': (params['at'], params['err']), 'sample': dict(params, close_result=rc[:2]), 'trans': len(w.calls)}
    finally:
        fakeusb.WORLD.env = None
        s.finish()


def parts(tier):
    mods()
    sc = [{'T': T, 'D': D, 'size': z, 'kd': kd, 'select': sel} for T in (None, 0, 0.001, 0.5, 1, 2.5) for D in (None, 3, 0.5, 2.75) for z in (1, 24, 513, 1000, 4096, 1024 * 1024) for kd in (False, True)
          for sel in (['serial', 'SER1'], ['port', [1, 2, 3]], ['port', '1-2.3'])]
    out = [Part('contract-grid', sc, run_contract, what='timeouts x default timeout x read sizes x kernel driver x device selection', bound='%d cases' % len(sc))]
    k = 2 if tier == 'quick' else 3
    out.append(Part('session-short-transfers', [{'D': D, 'frag': True} for D in (None, 3)], run_session, {'frag': k}, split=2,
                    what='whole AdbDeviceUsb session, backend short transfers at every placement', bound='short-transfer deviations <= %d' % k))
    out.append(Part('session-short-writes', [{'D': None, 'wcap': True}], run_session, {'wcap': 2 if tier == 'quick' else 3}, split=2,
                    what='whole AdbDeviceUsb session, the backend accepting fewer bytes than offered (bulkWrite returns the count) at every placement', bound='short-write deviations <= %d' % (2 if tier == 'quick' else 3)))
    # every bulk call index of the session x error classes
    s, w = usb_session(FixedChooser(), scen.std_cfg())
    try:
        for o in scen.std_ops():
            s.op(o)
        idx = [i for i, c in enumerate(w.calls) if c[0] in ('bulkRead', 'bulkWrite')]
    finally:
        fakeusb.WORLD.env = None
        s.finish()
    sc = [{'faults': [[i, e]], 'D': None} for i in idx for e in ('timeout', 'timeout-partial', 'nodevice', 'io', 'pipe')]
    sc += [{'unplug': i, 'D': None} for i in idx]
    out.append(Part('backend-errors', sc, run_session, what='every USBError subclass at every bulkRead/bulkWrite call index of a session', bound='%d (index, error) cases' % len(sc)))
    sc = [{'at': a, 'err': e} for a in (0, 1) for e in ('nodevice', 'io', 'busy', 'notfound')]
    out.append(Part('close-errors', sc, run_close_errors, what='libusb errors while closing, then use after close / double close', bound='%d cases' % len(sc), min_outcomes=1))
    return out
