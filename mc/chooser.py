"""Choice points.  An execution is fully determined by its list of choices.

Option 0 is always the default environment answer (cost 0).  Every other option is a deviation
whose cost is charged to the budget of the point's kind.
"""
from .common import HarnessError


class ReplayDivergence(HarnessError):
    pass


class Chooser(object):
    __slots__ = ('prefix', 'expect', 'points', 'choices', 'labels', 'strict', 'lenient')

    def __init__(self, prefix=(), expect=None, strict=False, lenient=False):
        self.prefix = list(prefix)
        self.expect = expect          # list of (kind, n) for the prefix positions (may be shorter)
        self.points = []              # (kind, n, costs)
        self.choices = []
        self.labels = []
        self.strict = strict          # replay-only: running past the prefix with n > 1 is an error
        self.lenient = lenient        # replay what fits: a recorded choice that does not exist at this point becomes the default

    def choose(self, kind, n, costs=None, label=None):
        if n < 1:
            raise HarnessError('choice point %r with no options' % (kind,))
        if n == 1:
            return 0
        i = len(self.choices)
        if i < len(self.prefix):
            c = self.prefix[i]
            if self.lenient and not 0 <= c < n:
                c = 0
            if not 0 <= c < n:
                raise ReplayDivergence('point %d (%s): recorded choice %d but only %d options' % (i, kind, c, n))
            if self.expect is not None and i < len(self.expect):
                ek, en = self.expect[i][0], self.expect[i][1]
                if ek != kind or en != n:
                    raise ReplayDivergence('point %d: recorded (%s,%d), now (%s,%d)' % (i, ek, en, kind, n))
        else:
            if self.strict and self.prefix:
                raise ReplayDivergence('replay ran past the recorded choice list at point %d (%s,%d)' % (i, kind, n))
            c = 0
        self.points.append((kind, n, costs))
        self.choices.append(c)
        self.labels.append(label)
        return c

    def cost(self, upto=None):
        """Accumulated deviation cost per kind of choices[:upto]."""
        acc = {}
        pts = self.points if upto is None else self.points[:upto]
        for (kind, _n, costs), c in zip(pts, self.choices):
            if c:
                acc[kind] = acc.get(kind, 0) + (1 if costs is None else (costs if isinstance(costs, int) else costs[c]))
        return acc

    def trace(self):
        return [[k, n, c] for (k, n, _), c in zip(self.points, self.choices)]


class FixedChooser(Chooser):
    """Always the default answer; used for solo/reference runs."""

    def choose(self, kind, n, costs=None, label=None):
        return 0
