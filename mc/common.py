"""Process-wide setup: import adb_shell from the working tree that is being checked."""
import os
import sys

REPO = os.environ.get('VERIF_REPO', '/repo')
VERIF = os.path.dirname(os.path.dirname(os.path.abspath(__file__)))
SEED = int(os.environ.get('VERIF_SEED', '0') or 0)
WORKERS = int(os.environ.get('VERIF_WORKERS', '0') or 0) or min(16, os.cpu_count() or 1)

if REPO not in sys.path:
    sys.path.insert(0, REPO)


def import_repo():
    """Import adb_shell and make sure it is the tree under REPO (never an installed copy)."""
    import adb_shell
    here = os.path.realpath(os.path.dirname(adb_shell.__file__))
    want = os.path.realpath(os.path.join(REPO, 'adb_shell'))
    if here != want:
        raise RuntimeError('adb_shell imported from %s, expected %s' % (here, want))
    return adb_shell


class HarnessError(Exception):
    """The harness itself misbehaved (exit status 2, never reported as a violation)."""


def rng(*salt):
    """A deterministic random source derived from VERIF_SEED and a salt (data instantiation only)."""
    import random
    return random.Random('%d/%s' % (SEED, '/'.join(str(s) for s in salt)))
