"""Stateless deviation-bounded depth-first exploration over a process pool.

``run_one(params, chooser) -> obs`` executes the real code once under one complete choice list.
``obs`` is a dict with (all optional except outcome):
  outcome     JSON-able summary of everything observed (used to count distinct outcomes and for the
              replay-determinism re-runs)
  viol        list of {'msg': str, 'sig': finding-id or None, ...}
  states      iterable of hashable abstract states seen at choice points
  trans       number of transitions (steps) executed
  nontrivial  hashable key when this execution is non-trivial by the check's rule (else None)
  sample      JSON-able description of the case
"""
import hashlib
import multiprocessing
import os
import time
import traceback

from . import jsonx
from .chooser import Chooser, ReplayDivergence
from .common import HarnessError, WORKERS


def digest(x):
    return int.from_bytes(hashlib.blake2b(repr(x).encode('utf8', 'backslashreplace'), digest_size=8).digest(), 'big')


class Stats(object):
    def __init__(self):
        self.execs = 0
        self.points = 0
        self.max_depth = 0
        self.outcomes = {}
        self.states = set()
        self.transitions = 0
        self.nontrivial = set()
        self.violations = []      # (cost, len, sidx, choices, expect, viol dict)
        self.n_viol = 0
        self.known = {}           # finding id -> [count, example]
        self.samples = []
        self.replays = 0
        self.caps = []
        self.errors = []
        self.max_cost = {}
        self.extra = {}           # free-form counters (summed)

    def merge(self, o):
        self.execs += o.execs
        self.points += o.points
        self.max_depth = max(self.max_depth, o.max_depth)
        for k, v in o.outcomes.items():
            self.outcomes[k] = self.outcomes.get(k, 0) + v
        self.states |= o.states
        self.transitions += o.transitions
        self.nontrivial |= o.nontrivial
        self.violations.extend(o.violations)
        self.violations.sort(key=lambda v: (v[0], v[1]))
        del self.violations[25:]
        self.n_viol += o.n_viol
        for k, (c, ex) in o.known.items():
            if k in self.known:
                self.known[k][0] += c
            else:
                self.known[k] = [c, ex]
        for s in o.samples:
            if len(self.samples) < 6:
                self.samples.append(s)
        self.replays += o.replays
        for c in o.caps:
            if c not in self.caps:
                self.caps.append(c)
        self.errors.extend(o.errors)
        for k, v in o.max_cost.items():
            self.max_cost[k] = max(self.max_cost.get(k, 0), v)
        for k, v in o.extra.items():
            self.extra[k] = self.extra.get(k, 0) + v


_CTX = {}


def _children(ch, prefix_len, budgets, acc):
    """Alternatives below the executed choice list that stay within the per-kind budgets."""
    out = []
    expect = [(k, n) for (k, n, _c) in ch.points]
    for i in range(prefix_len, len(ch.points)):
        kind, n, costs = ch.points[i]
        b = budgets.get(kind, budgets.get('*', 0))
        have = acc.get(kind, 0)
        for alt in range(1, n):
            c = 1 if costs is None else (costs if isinstance(costs, int) else costs[alt])
            if b is not None and have + c > b:
                continue
            tb = budgets.get('total')
            if tb is not None and c and sum(acc.values()) + c > tb:
                continue
            out.append((ch.choices[:i] + [alt], expect[:i + 1]))
    return out


def run_item(run_one, params, sidx, prefix, expect, budgets, st, deadline=None, sample_every=0, known_ids=()):
    """DFS below one prefix.  Returns nothing; accumulates into st."""
    stack = [(list(prefix), expect)]
    while stack:
        if deadline is not None and time.time() > deadline:
            if 'deadline' not in st.caps:
                st.caps.append('deadline')
            return
        stop = _CTX.get('stop')
        if stop is not None and stop.is_set():
            return
        if st.n_viol >= 40:
            if 'stopped after 40 violations in one subtree' not in st.caps:
                st.caps.append('stopped after 40 violations in one subtree')
            return
        pre, exp = stack.pop()
        ch = Chooser(pre, exp)
        try:
            obs = run_one(params, ch)
        except ReplayDivergence as e:
            st.errors.append('replay divergence in scenario %d prefix %r: %s' % (sidx, pre, e))
            continue
        except HarnessError as e:
            st.errors.append('harness error in scenario %d prefix %r: %s' % (sidx, pre, e))
            continue
        if len(ch.choices) < len(pre):
            st.errors.append('scenario %d: execution used %d choices, prefix has %d' % (sidx, len(ch.choices), len(pre)))
            continue
        st.execs += 1
        st.points += len(ch.points)
        st.max_depth = max(st.max_depth, len(ch.points))
        od = digest(obs.get('outcome'))
        st.outcomes[od] = st.outcomes.get(od, 0) + 1
        stt = obs.get('states')
        if stt:
            # PYTHONHASHSEED is fixed by ./check, so the built-in hash is stable across worker processes; ints keep the
            # per-chunk result small (sets of raw state tuples made the parent the bottleneck of the deep thread explorations)
            st.states.update(hash(x) for x in stt)
        st.transitions += obs.get('trans', 0)
        nt = obs.get('nontrivial')
        if nt is not None:
            st.nontrivial.add(digest((nt,)))
        for k, v in (obs.get('extra') or {}).items():
            st.extra[k] = st.extra.get(k, 0) + v
        acc = ch.cost()
        for k, v in acc.items():
            st.max_cost[k] = max(st.max_cost.get(k, 0), v)
        viol = obs.get('viol') or []
        failing = False
        for v in viol:
            sig = v.get('sig')
            if sig and sig in known_ids:
                e = st.known.setdefault(sig, [0, None])
                e[0] += 1
                if e[1] is None:
                    e[1] = {'scenario': sidx, 'choices': list(ch.choices), 'msg': v.get('msg')}
            else:
                failing = True
                st.n_viol += 1
                if len(st.violations) < 25:
                    st.violations.append((sum(acc.values()), len(ch.choices), sidx, list(ch.choices),
                                          [(k, n) for (k, n, _c) in ch.points], v))
        if obs.get('sample') is not None and len(st.samples) < 3 and (st.execs == 1 or any(ch.choices) or (not ch.choices and st.execs <= 3)):
            st.samples.append({'scenario': sidx, 'choices': list(ch.choices), 'case': obs.get('sample')})
        # replay-determinism re-run: first, every 97th and every failing execution
        if failing or st.execs == 1 or st.execs % 97 == 0:
            ch2 = Chooser(ch.choices, [(k, n) for (k, n, _c) in ch.points], strict=True)
            try:
                obs2 = run_one(params, ch2)
                if digest(obs2.get('outcome')) != od or ch2.choices != ch.choices:
                    st.errors.append('non-deterministic replay in scenario %d choices %r' % (sidx, ch.choices))
            except HarnessError as e:
                st.errors.append('replay of scenario %d choices %r failed: %s' % (sidx, ch.choices, e))
            st.replays += 1
        stack.extend(_children(ch, len(pre), budgets, acc))


def _work(item):
    sidx, prefix, expect = item
    c = _CTX
    st = Stats()
    try:
        run_item(c['run_one'], c['scenarios'][sidx], sidx, prefix, expect, c['budgets_of'](sidx), st,
                 deadline=c.get('deadline'), known_ids=c.get('known_ids', ()))
    except Exception:  # pylint: disable=broad-except
        st.errors.append('worker crashed on scenario %d prefix %r:\n%s' % (sidx, prefix, traceback.format_exc()))
    return st


def _work_many(items):
    st = Stats()
    for it in items:
        stop = _CTX.get('stop')
        if stop is not None and stop.is_set():
            break
        st.merge(_work(it))
    return st


def explore(scenarios, run_one, budgets=None, split=0, deadline_s=None, known_ids=(), workers=None, chunk=None):
    """Explore every scenario exhaustively within ``budgets`` (dict kind -> max deviation cost; a
    callable scenario-index -> dict is accepted too).  ``split``: number of levels the parent expands
    before farming subtrees out (for few, large scenarios)."""
    budgets = budgets or {}
    budgets_of = budgets if callable(budgets) else (lambda _i: budgets)
    workers = workers or WORKERS
    total = Stats()
    _CTX.clear()
    _CTX.update(run_one=run_one, scenarios=scenarios, budgets_of=budgets_of, known_ids=tuple(known_ids),
                deadline=(time.time() + deadline_s) if deadline_s else None)
    items = [(i, [], None) for i in range(len(scenarios))]
    for _ in range(split):
        nxt = []
        for (sidx, prefix, expect) in items:
            # run this node here, farm its children
            st = Stats()
            ch_items = []

            def one(params, ch, _orig=run_one, _ci=ch_items, _pl=len(prefix), _b=budgets_of(sidx)):
                obs = _orig(params, ch)
                _ci[:] = [(c, e) for (c, e) in _children(ch, _pl, _b, ch.cost())]
                return obs
            # run without descending: budgets {} blocks children inside run_item
            run_item(one, scenarios[sidx], sidx, prefix, expect, {'*': -1, 'total': -1}, st, known_ids=known_ids)
            # the replay re-run may have overwritten ch_items with identical content; fine
            total.merge(st)
            nxt.extend((sidx, c, e) for (c, e) in ch_items)
        items = nxt
    if not items:
        return total
    if workers <= 1 or len(items) == 1:
        for it in items:
            total.merge(_work(it))
        return total
    if chunk is None:
        chunk = max(1, min(256, len(items) // (workers * 8)))
    chunks = [items[i:i + chunk] for i in range(0, len(items), chunk)]
    ctx = multiprocessing.get_context('fork')
    _CTX['stop'] = ctx.Event()          # created before the fork: workers drop the remaining work once enough violations are in
    with ctx.Pool(min(workers, len(chunks))) as pool:
        for st in pool.imap_unordered(_work_many, chunks):
            total.merge(st)
            if total.n_viol >= 400 and not _CTX['stop'].is_set():
                total.caps.append('exploration stopped early after %d violations' % total.n_viol)
                _CTX['stop'].set()
    _CTX['stop'] = None
    return total


def replay(run_one, params, choices, expect=None):
    ch = Chooser(choices, expect, strict=True)
    obs = run_one(params, ch)
    return ch, obs
