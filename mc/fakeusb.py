"""A fake `usb1` module (python-libusb1's documented surface) wired to adbsim.  It is the trusted base of C20:
it behaves as the libusb documentation says a conforming backend behaves, and records every call it receives."""
import sys
import types

ENDPOINT_DIR_MASK = 0x80
CLASS_VENDOR_SPEC = 0xFF
IN_EP, OUT_EP = 0x81, 0x02


class USBError(Exception):
    value = None

    def __init__(self, value=None):
        Exception.__init__(self)
        self.value = value if value is not None else self.value


def _mk(name, value, extra=None):
    body = {'value': value}
    body.update(extra or {})
    return type(name, (USBError,), body)


USBErrorIO = _mk('USBErrorIO', -1)
USBErrorInvalidParam = _mk('USBErrorInvalidParam', -2)
USBErrorAccess = _mk('USBErrorAccess', -3)
USBErrorNoDevice = _mk('USBErrorNoDevice', -4)
USBErrorNotFound = _mk('USBErrorNotFound', -5)
USBErrorBusy = _mk('USBErrorBusy', -6)
USBErrorPipe = _mk('USBErrorPipe', -9)


class USBErrorTimeout(USBError):
    value = -7
    transferred = 0
    received = b''


ERRORS = {'timeout': USBErrorTimeout, 'nodevice': USBErrorNoDevice, 'io': USBErrorIO, 'pipe': USBErrorPipe, 'busy': USBErrorBusy, 'access': USBErrorAccess,
          'notfound': USBErrorNotFound}


class World(object):
    """State shared by the fake backend objects of one execution."""

    def __init__(self):
        self.reset()

    def reset(self):
        self.calls = []            # (name, args...)
        self.devices = []
        self.faults = {}           # call index -> error key
        self.env = None            # simenv.Env supplying the bytes
        self.kernel_driver = False
        self.issues = []
        self.unplug_at = None      # from this backend call index on the device is gone: every call raises USBErrorNoDevice
        self.unplugged = False

    def call(self, name, *args):
        idx = len(self.calls)
        self.calls.append((name,) + args)
        if self.unplug_at is not None and idx >= self.unplug_at:
            self.unplugged = True
            raise USBErrorNoDevice()
        k = self.faults.get(idx)
        if k == 'timeout-partial':
            # libusb reports a timeout after a part of the transfer went through (python-libusb1 attaches .transferred / .received)
            e = USBErrorTimeout()
            e.transferred = 3
            e.received = b'abc'
            raise e
        if k:
            raise ERRORS[k]()


WORLD = World()


class Endpoint(object):
    def __init__(self, address, maxpacket=512):
        self.address, self.maxpacket = address, maxpacket

    def getAddress(self):
        return self.address

    def getMaxPacketSize(self):
        return self.maxpacket


class Setting(object):
    def __init__(self, number, klass, subclass, protocol, endpoints):
        self.number, self.klass, self.subclass, self.protocol, self.endpoints = number, klass, subclass, protocol, endpoints

    def getClass(self):
        return self.klass

    def getSubClass(self):
        return self.subclass

    def getProtocol(self):
        return self.protocol

    def getNumber(self):
        return self.number

    def iterEndpoints(self):
        return iter(self.endpoints)


class Handle(object):
    def __init__(self, device):
        self.device = device
        self.closed = False
        self.claimed = set()

    def _alive(self, what):
        if self.closed:
            WORLD.issues.append('%s on a closed libusb handle' % what)
            raise USBErrorNoDevice()

    def kernelDriverActive(self, iface):
        WORLD.call('kernelDriverActive', iface)
        return WORLD.kernel_driver

    def detachKernelDriver(self, iface):
        WORLD.call('detachKernelDriver', iface)
        WORLD.kernel_driver = False

    def claimInterface(self, iface):
        WORLD.call('claimInterface', iface)
        self._alive('claimInterface')
        if WORLD.kernel_driver:
            raise USBErrorBusy()
        self.claimed.add(iface)
        if WORLD.env is not None:
            WORLD.env.t_connect(None)

    def releaseInterface(self, iface):
        WORLD.call('releaseInterface', iface)
        self._alive('releaseInterface')
        if iface not in self.claimed:
            raise USBErrorNotFound()
        self.claimed.discard(iface)

    def close(self):
        WORLD.call('close')
        self.closed = True
        if WORLD.env is not None:
            WORLD.env.t_close()

    def bulkWrite(self, endpoint, data, timeout=0):
        WORLD.call('bulkWrite', endpoint, len(data), timeout)
        self._alive('bulkWrite')
        if endpoint & ENDPOINT_DIR_MASK:
            WORLD.issues.append('bulkWrite to IN endpoint 0x%02x' % endpoint)
            raise USBErrorInvalidParam()
        if not self.claimed:
            raise USBErrorIO()
        if not isinstance(timeout, int) or timeout < 0:
            WORLD.issues.append('bulkWrite timeout %r is not a non-negative integer number of milliseconds' % (timeout,))
        return WORLD.env.t_write(bytes(data), None if timeout == 0 else timeout / 1000.0)

    def bulkRead(self, endpoint, length, timeout=0):
        WORLD.call('bulkRead', endpoint, length, timeout)
        self._alive('bulkRead')
        if not endpoint & ENDPOINT_DIR_MASK:
            WORLD.issues.append('bulkRead from OUT endpoint 0x%02x' % endpoint)
            raise USBErrorInvalidParam()
        if not self.claimed:
            raise USBErrorIO()
        if not isinstance(timeout, int) or timeout < 0:
            WORLD.issues.append('bulkRead timeout %r is not a non-negative integer number of milliseconds' % (timeout,))
        from adb_shell.exceptions import TcpTimeoutException
        try:
            return bytearray(WORLD.env.t_read(length, None if timeout == 0 else timeout / 1000.0))
        except TcpTimeoutException:
            raise USBErrorTimeout()


class Device(object):
    def __init__(self, serial, bus, ports, settings):
        self.serial, self.bus, self.ports, self.settings = serial, bus, ports, settings
        self.handles = []

    def iterSettings(self):
        return iter(self.settings)

    def getBusNumber(self):
        return self.bus

    def getPortNumberList(self):
        return list(self.ports)

    def getSerialNumber(self):
        if WORLD.unplugged:
            raise USBErrorNoDevice()
        return self.serial

    def open(self):
        WORLD.call('open', self.serial)
        h = Handle(self)
        self.handles.append(h)
        return h


class USBContext(object):
    def open(self):
        return self

    def __enter__(self):
        return self

    def __exit__(self, *a):
        return False

    def getDeviceIterator(self, skip_on_error=False):
        return iter(list(WORLD.devices))

    def getDeviceList(self, skip_on_error=False):
        return list(WORLD.devices)

    def close(self):
        pass


def adb_device(serial='SER1', bus=1, ports=(2, 3)):
    return Device(serial, bus, ports, [Setting(0, 0x08, 0x06, 0x50, [Endpoint(0x83), Endpoint(0x04)]),
                                       Setting(1, CLASS_VENDOR_SPEC, 0x42, 0x01, [Endpoint(IN_EP), Endpoint(OUT_EP)])])


def other_device(serial='MSD0'):
    return Device(serial, 1, (9,), [Setting(0, 0x08, 0x06, 0x50, [Endpoint(0x81), Endpoint(0x02)])])


def install():
    """Put the fake module into sys.modules and make sure adb_shell's USB support is bound to it."""
    mod = types.ModuleType('usb1')
    for k, v in globals().items():
        if k.startswith('USB') or k in ('ENDPOINT_DIR_MASK', 'CLASS_VENDOR_SPEC'):
            setattr(mod, k, v)
    mod.__verif_fake__ = True
    sys.modules['usb1'] = mod
    import importlib
    for name in ('adb_shell.transport.usb_transport', 'adb_shell.adb_device'):
        if name in sys.modules:
            importlib.reload(sys.modules[name])
    import adb_shell.transport.usb_transport as ut
    import adb_shell.adb_device as ad
    if ad.UsbTransport is None:
        importlib.reload(ad)
    return ut, ad
