"""Known findings: /verif/known_findings.json is committed and never written at run time.

An entry {id, property, status, what, signature, commit?}: status 'known' entries forgive exactly the
failing executions whose structured signature (computed by the check, see each check's `sig`) equals
the entry's id; 'fixed' entries forgive nothing."""
import json
import os

from .common import VERIF

PATH = os.path.join(VERIF, 'known_findings.json')


def load():
    with open(PATH) as f:
        return json.load(f)['findings']


def known_ids(prop):
    return tuple(e['id'] for e in load() if e['status'] == 'known' and prop in e['properties'])


def entry(fid):
    for e in load():
        if e['id'] == fid:
            return e
    return None
