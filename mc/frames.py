"""Independent ADB frame codec (AOSP protocol.txt), sharing nothing with adb_shell.adb_message.

struct message { unsigned command, arg0, arg1, data_length, data_crc32, magic; }  -- little endian,
data_crc32 is the byte sum of the payload (mod 2^32), magic = command ^ 0xffffffff.
"""

NAMES = (b'SYNC', b'CNXN', b'AUTH', b'OPEN', b'OKAY', b'CLSE', b'WRTE')
WIRE = {n: int.from_bytes(n, 'little') for n in NAMES}
UNWIRE = {v: k for k, v in WIRE.items()}
HDR = 24
M32 = 0xFFFFFFFF


def bytesum(data):
    t = 0
    for i in range(0, len(data), 1 << 16):
        t += sum(data[i:i + (1 << 16)])
    return t & M32


def encode(cmd, a0, a1, data=b''):
    """Return header bytes (payload is sent as-is right after)."""
    w = WIRE[cmd]
    out = b''
    for v in (w, a0, a1, len(data), bytesum(data), w ^ M32):
        out += int(v).to_bytes(4, 'little')
    return out


class Packet(object):
    __slots__ = ('cmd', 'a0', 'a1', 'data')

    def __init__(self, cmd, a0, a1, data=b''):
        self.cmd, self.a0, self.a1, self.data = cmd, a0, a1, data

    def key(self):
        return (self.cmd, self.a0, self.a1, self.data)

    def __repr__(self):
        d = self.data if len(self.data) <= 24 else self.data[:24] + b'..(%d)' % len(self.data)
        return '%s(%d,%d,%r)' % (self.cmd.decode(), self.a0, self.a1, d)


class FrameError(Exception):
    pass


class Parser(object):
    """Strict incremental parser.  After the first malformed frame `error` is set and input is ignored."""

    def __init__(self, max_payload=None):
        self.buf = bytearray()
        self.error = None
        self.max_payload = max_payload
        self.frames = 0

    def feed(self, data):
        out = []
        if self.error:
            return out
        self.buf += data
        while len(self.buf) >= HDR:
            f = [int.from_bytes(self.buf[i:i + 4], 'little') for i in range(0, HDR, 4)]
            w, a0, a1, ln, cs, magic = f
            if w not in UNWIRE:
                self.error = 'frame %d: unknown command word 0x%08x' % (self.frames, w)
                break
            if magic != (w ^ M32):
                self.error = 'frame %d (%s): magic 0x%08x is not the complement of the command' % (self.frames, UNWIRE[w].decode(), magic)
                break
            if self.max_payload is not None and ln > self.max_payload:
                self.error = 'frame %d (%s): data_length %d exceeds maxdata %d' % (self.frames, UNWIRE[w].decode(), ln, self.max_payload)
                break
            if len(self.buf) < HDR + ln:
                break
            payload = bytes(self.buf[HDR:HDR + ln])
            if bytesum(payload) != cs:
                self.error = 'frame %d (%s): data_check %d != byte sum %d' % (self.frames, UNWIRE[w].decode(), cs, bytesum(payload))
                break
            del self.buf[:HDR + ln]
            self.frames += 1
            out.append(Packet(UNWIRE[w], a0, a1, payload))
        return out

    def partial(self):
        return len(self.buf)


# -------------------------------------------------------------------------------- sync sub-protocol (SYNC.TXT)
S = {n: int.from_bytes(n, 'little') for n in (b'LIST', b'RECV', b'SEND', b'STAT', b'DATA', b'DENT', b'DONE', b'FAIL', b'OKAY', b'QUIT')}
SU = {v: k for k, v in S.items()}


def u32(v):
    return int(v).to_bytes(4, 'little')


def sync_req(sid, arg):
    """id + length-prefixed payload (LIST/RECV/SEND/STAT/DATA/FAIL) as the peer encodes it."""
    return u32(S[sid]) + u32(len(arg)) + arg


def sync_dent(mode, size, mtime, name):
    return u32(S[b'DENT']) + u32(mode) + u32(size) + u32(mtime) + u32(len(name)) + name


def sync_stat(mode, size, mtime):
    return u32(S[b'STAT']) + u32(mode) + u32(size) + u32(mtime)
