"""Drive the real AdbDevice / AdbDeviceAsync against adbsim.  One Session per execution."""
import atexit
import io
import os
import shutil
import tempfile

from . import simenv, vloop
from .common import HarnessError
from .chooser import ReplayDivergence

_TMP = {}


def init_tmp():
    """Called in the parent before any worker is forked: one scratch directory per run, removed when the parent exits
    (pool workers are terminated without running their own exit handlers)."""
    if 'base' not in _TMP:
        _TMP['base'] = tempfile.mkdtemp(prefix='adbverif-')
        _TMP['owner'] = os.getpid()
        atexit.register(_cleanup)
    return _TMP['base']


def _cleanup():
    if _TMP.get('owner') == os.getpid():
        shutil.rmtree(_TMP['base'], True)


def tmpdir():
    base = init_tmp()
    d = os.path.join(base, 'w%d' % os.getpid())
    if not os.path.isdir(d):
        os.makedirs(d, exist_ok=True)
    return d


class CallbackAbort(BaseException):
    """What a progress callback of kind 'raise-base' raises: not an Exception subclass (like KeyboardInterrupt or CancelledError)."""


class StubSigner(object):
    """Deterministic signer: the device model can tell which key signed which token."""

    def __init__(self, kid, pub_as_bytes=False):
        self.kid = kid
        self.pub_as_bytes = pub_as_bytes
        self.signed = []

    def Sign(self, data):
        self.signed.append(bytes(data))
        return b'SIG[%d]:' % self.kid + bytes(data)

    def GetPublicKey(self):
        if self.pub_as_bytes == 'nonascii':
            return 'PUBKEY-%d jos\u00e9@b\u00fccherwurm \u9375' % self.kid      # a key comment outside ASCII, returned as text like the shipped signers do
        if self.pub_as_bytes == 'empty':
            return u''         # a key loaded without its public half (every such signer reports the same, empty, public key)
        pk = 'PUBKEY-%d user@host' % self.kid
        if self.pub_as_bytes == 'bytearray':
            # a signer that hands out the bytearray it stores (the library accepts bytes-like keys): the caller must not modify it
            if not hasattr(self, '_stored'):
                self._stored = bytearray(pk.encode())
            return self._stored
        return pk.encode() if self.pub_as_bytes else pk


class VLock(object):
    """Stand-in for threading.Lock in single-threaded executions: acquiring a lock that is already held can never
    succeed there, so it is reported as a verdict instead of blocking the harness for real."""

    def __init__(self):
        self._held = False

    def acquire(self, blocking=True, timeout=-1):
        if self._held:
            if not blocking:
                return False
            raise simenv.Hang('acquire() of a lock that is already held: the operation would block forever')
        self._held = True
        return True

    def release(self):
        if not self._held:
            raise RuntimeError('release unlocked lock')
        self._held = False

    def locked(self):
        return self._held

    def __enter__(self):
        self.acquire()
        return True

    def __exit__(self, *a):
        self.release()


def find_locks(*objs):
    """Lock-like attributes (acquire + locked) of the given objects, by attribute name.  The checks must keep working when a
    refactoring renames private lock attributes, so locks are discovered, not looked up by name."""
    out = {}
    for o in objs:
        for k, v in sorted(vars(o).items()):
            if hasattr(v, 'acquire') and hasattr(v, 'locked') and hasattr(v, 'release'):
                out[k] = v
    return out


class Session(object):
    def __init__(self, ch, cfg, twin='sync', default_timeout=None, banner=b'verif', explore_io=False, **envkw):
        envkw_lock = envkw.pop('lock_factory', None)
        envkw_loop = envkw.pop('share_loop', None)
        self.env = simenv.Env(ch, cfg, **envkw)
        self.twin = twin
        self.ch = ch
        import adb_shell.adb_device as ad
        import adb_shell.adb_device_async as ada
        self.mods = (ad, ada)
        ad.time = self.env.clock
        ada.time = self.env.clock
        if twin == 'sync':
            self._real_lock = ad.Lock
            ad.Lock = envkw_lock or VLock
            self.transport = simenv.make_sync_transport(self.env)
            self.dev = ad.AdbDevice(self.transport, default_transport_timeout_s=default_timeout, banner=banner)
            self.loop = None
        else:
            self.loop = envkw_loop or vloop.VLoop(self.env.clock, ch, explore_io=explore_io)
            self.owns_loop = envkw_loop is None
            self.transport = simenv.make_async_transport(self.env)
            self.dev = ada.AdbDeviceAsync(self.transport, default_transport_timeout_s=default_timeout, banner=banner)
            if explore_io:
                self.env.sched = self.loop
        self.cb_log = []
        self.gens = []

    def finish(self):
        import time as _time
        self.mods[0].time = _time
        self.mods[1].time = _time
        if self.twin == 'sync':
            self.mods[0].Lock = self._real_lock
        for g in self.gens:
            try:
                if self.twin == 'sync':
                    g.close()
                else:
                    self.loop.run1(g.aclose())
            except BaseException:  # pylint: disable=broad-except
                pass
        if self.loop is not None and getattr(self, 'owns_loop', True):
            self.loop.shutdown()

    # ------------------------------------------------------------------ running one operation
    def run(self, fn):
        """fn(dev) -> value (sync) or coroutine (async).  Returns ('ok', v) | ('exc', type, msg) | ('hang'|'watchdog', msg)."""
        try:
            if self.twin == 'sync':
                return ('ok', fn(self.dev))
            return ('ok', self.loop.run1(fn(self.dev)))
        except (ReplayDivergence, HarnessError):
            raise
        except simenv.Hang as e:
            return ('hang', str(e))
        except simenv.Watchdog as e:
            return ('watchdog', str(e))
        except vloop.Deadlock as e:
            return ('deadlock', str(e))
        except CallbackAbort as e:
            self.last_exc = e
            return ('exc', 'CallbackAbort', '')
        except Exception as e:  # pylint: disable=broad-except
            self.last_exc = e
            return ('exc', type(e).__name__, str(e)[:300])

    def op(self, op):
        """op is a tuple (name, args..., kwargs-dict?) -- plain data, so scenarios can be recorded."""
        name = op[0]
        kw = dict(op[-1]) if len(op) > 1 and isinstance(op[-1], dict) else {}
        args = [a for a in op[1:] if not isinstance(a, dict)]
        sync = self.twin == 'sync'
        if name in ('shell', 'exec_out'):
            return self.run(lambda d: getattr(d, name)(args[0], **kw))
        if name in ('root', 'reboot', 'close'):
            return self.run(lambda d: getattr(d, name)(**kw))
        if name == 'connect':
            sim = kw.pop('_sim', None)
            self.env.session_over = dict(sim) if sim else None
            keys = kw.pop('_keys', None)
            if keys is not None:
                kw['rsa_keys'] = [StubSigner(*k) if isinstance(k, (list, tuple)) else StubSigner(k) for k in keys]
            return self.run(lambda d: d.connect(**kw))
        if name == 'streaming_shell':
            if sync:
                return self.run(lambda d: list(d.streaming_shell(args[0], **kw)))

            async def collect(d):
                return [x async for x in d.streaming_shell(args[0], **kw)]
            return self.run(collect)
        if name == 'gen-start':
            # open a streaming_shell, take its first item and leave the generator suspended (a live stream with data in flight)
            if sync:
                def start(d):
                    g = d.streaming_shell(args[0], **kw)
                    self.gens.append(g)
                    return next(g)
            else:
                async def start(d):
                    g = d.streaming_shell(args[0], **kw)
                    self.gens.append(g)
                    return await g.__anext__()
            return self.run(start)
        if name == 'gen-create':
            # only create the generator object (a stream is not opened before the first item is requested)
            self.lazy = self.dev.streaming_shell(args[0], **kw)
            return ('ok', None)
        if name == 'gen-drain':
            g = getattr(self, 'lazy', None)
            if g is None:
                return ('ok', 'no-generator')
            self.lazy = None
            if sync:
                return self.run(lambda d: list(g))

            async def drain(d):
                return [x async for x in g]
            return self.run(drain)
        if name == 'gen-rest':
            g = self.gens[args[0]]
            if sync:
                return self.run(lambda d: list(g))

            async def rest(d):
                return [x async for x in g]
            return self.run(rest)
        kwpath = kw.pop('_kwpath', False)         # pass the device path by keyword (device_path=...)
        if name == 'list':
            r = self.run((lambda d: d.list(device_path=args[0], **kw)) if kwpath else (lambda d: d.list(args[0], **kw)))
            if r[0] == 'ok':
                r = ('ok', [tuple(x) for x in r[1]])
            return r
        if name == 'stat':
            r = self.run((lambda d: d.stat(device_path=args[0], **kw)) if kwpath else (lambda d: d.stat(args[0], **kw)))
            if r[0] == 'ok':
                r = ('ok', tuple(r[1]))
            return r
        if name == 'pull':
            return self._pull(args[0], args[1] if len(args) > 1 else 'bytesio', dict(kw, _kwpath=kwpath))
        if name == 'push':
            return self._push(args[0], args[1], dict(kw, _kwpath=kwpath))
        raise HarnessError('unknown op %r' % (op,))

    def _callback(self, kind):
        if not kind:
            return None
        log = self.cb_log
        sync = self.twin == 'sync'

        dev = self.dev
        nested = self.nested = []

        def cb(path, n, total):
            log.append((path, n, total))
            if kind == 'raise':
                raise RuntimeError('callback failure')
            if kind == 'raise-base':
                raise CallbackAbort()
            if kind == 'reenter':                  # a callback that queries the device (another sync transaction) while the transfer is running
                nested.append(tuple(dev.stat('/f')))

        async def acb(path, n, total):
            log.append((path, n, total))
            if kind == 'raise':
                raise RuntimeError('callback failure')
            if kind == 'raise-base':
                raise CallbackAbort()
            if kind == 'reenter':
                nested.append(tuple(await dev.stat('/f')))
        return cb if sync else acb

    def _pull(self, device_path, dest, kw):
        kw = dict(kw)
        kwpath = kw.pop('_kwpath', False)
        cbk = kw.pop('cb', None)
        if cbk:
            kw['progress_callback'] = self._callback(cbk)
        if isinstance(dest, str) and dest.startswith('failsink:'):
            limit = int(dest.split(':')[1])

            class FailingSink(io.BytesIO):
                calls = 0

                def write(self, data):
                    FailingSink.calls += 1
                    if FailingSink.calls > limit:
                        raise IOError('disk full')
                    return io.BytesIO.write(self, data)
            bio = FailingSink()
            r = self.run(lambda d: d.pull(device_path, bio, **kw))
            self.pulled = bio.getvalue()
        elif dest == 'bytesio':
            bio = io.BytesIO()
            r = self.run((lambda d: d.pull(device_path=device_path, local_path=bio, **kw)) if kwpath else (lambda d: d.pull(device_path, bio, **kw)))
            self.pulled = bio.getvalue()
        elif dest == 'newdir':
            # a destination whose parent directories do not exist: a refused pull must not create them either
            top = os.path.join(tmpdir(), 'nd')
            shutil.rmtree(top, True)
            path = os.path.join(top, 'sub', 'pulled.bin')
            r = self.run(lambda d: d.pull(device_path, path, **kw))
            self.pulled = open(path, 'rb').read() if os.path.exists(path) else None
            self.pull_dir_created = os.path.exists(top)
            shutil.rmtree(top, True)
        else:
            path = os.path.join(tmpdir(), 'pulled.bin')
            if os.path.exists(path):
                os.unlink(path)
            if dest == 'path':
                with open(path, 'wb') as f:       # a pre-existing destination must be replaced, not appended to or kept
                    f.write(b'STALE-CONTENT-' * 8)
            r = self.run(lambda d: d.pull(device_path, path, **kw))
            self.pulled = open(path, 'rb').read() if os.path.exists(path) else None
            self.pull_file_state = ('stale' if self.pulled == b'STALE-CONTENT-' * 8 else 'changed') if self.pulled is not None else 'absent'
            if os.path.exists(path):
                os.unlink(path)
        if r[0] == 'ok':
            r = ('ok', self.pulled)
        return r

    def _push(self, src, device_path, kw):
        kw = dict(kw)
        if kw.pop('_kwpath', False) and src[0] == 'bytes':
            bio = io.BytesIO(src[1])
            kw2 = dict(kw)
            cbk2 = kw2.pop('cb', None)
            if cbk2:
                kw2['progress_callback'] = self._callback(cbk2)
            return self.run(lambda d: d.push(bio, device_path=device_path, **kw2))
        return self._push2(src, device_path, kw)

    def _push2(self, src, device_path, kw):
        """src: ('bytes', data) -> BytesIO; ('file', data) -> a real file; ('dir', {name: data}, cwd_elsewhere)."""
        kw = dict(kw)
        cbk = kw.pop('cb', None)
        if cbk:
            kw['progress_callback'] = self._callback(cbk)
        if src[0] == 'bytes':
            bio = io.BytesIO(src[1])
            return self.run(lambda d: d.push(bio, device_path, **kw))
        if src[0] == 'bytes-at':
            # a stream the caller has already read from: what remains is src[1][src[2]:]
            bio = io.BytesIO(src[1])
            bio.seek(src[2])
            return self.run(lambda d: d.push(bio, device_path, **kw))
        base = tempfile.mkdtemp(prefix='push-', dir=tmpdir())
        try:
            if src[0] == 'file':
                path = os.path.join(base, 'src.bin')
                with open(path, 'wb') as f:
                    f.write(src[1])
                return self.run(lambda d: d.push(path, device_path, **kw))
            if src[0] == 'file-grow':
                # a file that another process appends to while it is being pushed: src[2] is appended when the host's first WRTE of this
                # push reaches the transport (a deterministic instant of the execution)
                path = os.path.join(base, 'src.bin')
                with open(path, 'wb') as f:
                    f.write(src[1])
                env = self.env

                def grow(data, _path=path, _extra=src[2]):
                    if bytes(data[:4]) == b'WRTE':
                        with open(_path, 'ab') as f:
                            f.write(_extra)
                        env.write_hook = None
                env.write_hook = grow
                try:
                    return self.run(lambda d: d.push(path, device_path, **kw))
                finally:
                    env.write_hook = None
            if src[0] == 'fifo':
                # a source whose read() may return less than asked for before end-of-file: a named pipe fed in pieces by another thread
                import threading
                import time as _t
                path = os.path.join(base, 'pipe')
                os.mkfifo(path)

                def feed(pieces=src[1], gap=src[2]):
                    with open(path, 'wb', buffering=0) as w:
                        for i, pc in enumerate(pieces):
                            if i:
                                _t.sleep(gap)
                            w.write(pc)
                th = threading.Thread(target=feed, daemon=True)
                th.start()
                try:
                    return self.run(lambda d: d.push(path, device_path, **kw))
                finally:
                    th.join(5)
            if src[0] == 'dir':
                d0 = os.path.join(base, 'tree')
                os.mkdir(d0)
                for nm, data in src[1].items():
                    if data is None:
                        os.mkdir(os.path.join(d0, nm))
                    else:
                        with open(os.path.join(d0, nm), 'wb') as f:
                            f.write(data)
                cwd = os.getcwd()
                where = src[2] if len(src) > 2 else 'elsewhere'
                try:
                    if where == 'decoy':
                        decoy = os.path.join(base, 'decoy')
                        os.mkdir(decoy)
                        for nm in src[1]:
                            os.mkdir(os.path.join(decoy, nm))       # same names as the files, but directories, in the working directory
                        os.chdir(decoy)
                        arg = d0
                    elif where == 'parent':
                        os.chdir(base)
                        arg = 'tree'
                    elif where == 'inside':
                        os.chdir(d0)
                        arg = d0
                    else:
                        arg = d0
                    _ld = os.listdir
                    os.listdir = lambda p_='.': sorted(_ld(p_))        # a fixed directory order (the library's own order is the OS's)
                    try:
                        return self.run(lambda d: d.push(arg, device_path, **kw))
                    finally:
                        os.listdir = _ld
                finally:
                    os.chdir(cwd)
            raise HarnessError('unknown push source %r' % (src[0],))
        finally:
            shutil.rmtree(base, True)
