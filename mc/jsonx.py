"""JSON with bytes / tuples preserved (replay files, evidence samples)."""
import json


def enc(x):
    if isinstance(x, (bytes, bytearray)):
        b = bytes(x)
        if len(b) > 96:
            return {'__b__': b[:48].hex(), 'len': len(b), 'trunc': True}
        return {'__b__': b.hex()}
    if isinstance(x, tuple):
        return {'__t__': [enc(i) for i in x]}
    if isinstance(x, list):
        return [enc(i) for i in x]
    if isinstance(x, (set, frozenset)):
        return {'__s__': sorted((enc(i) for i in x), key=repr)}
    if isinstance(x, dict):
        return {str(k): enc(v) for k, v in x.items()}
    if isinstance(x, (str, int, float, bool)) or x is None:
        return x
    return repr(x)


def enc_full(x):
    """Like enc but never truncates (replay parameters must round-trip)."""
    if isinstance(x, (bytes, bytearray)):
        return {'__b__': bytes(x).hex()}
    if isinstance(x, tuple):
        return {'__t__': [enc_full(i) for i in x]}
    if isinstance(x, list):
        return [enc_full(i) for i in x]
    if isinstance(x, dict):
        if all(isinstance(k, str) for k in x):
            return {k: enc_full(v) for k, v in x.items()}
        return {'__d__': [[enc_full(k), enc_full(v)] for k, v in x.items()]}
    if isinstance(x, (str, int, float, bool)) or x is None:
        return x
    raise TypeError('not replayable: %r' % (x,))


def dec(x):
    if isinstance(x, list):
        return [dec(i) for i in x]
    if isinstance(x, dict):
        if '__b__' in x:
            return bytes.fromhex(x['__b__'])
        if '__t__' in x:
            return tuple(dec(i) for i in x['__t__'])
        if '__d__' in x:
            return {dec(k): dec(v) for k, v in x['__d__']}
        return {k: dec(v) for k, v in x.items()}
    return x


def dumps(x, **kw):
    return json.dumps(x, **kw)
