"""Per-stream protocol monitor (AOSP protocol.txt stream rules) over the wire event log.

events: list of ('H', Packet) -- a complete packet received from the host, in the order written --
and ('D', Packet) -- a device packet at the moment it goes onto the wire.

Unconditional rules (checked on every execution of every check):
  U1 OPEN: local id in [1, 2^32-1], arg1 == 0, NUL-terminated destination, id not in use by an open stream
  U2 every later host packet of a stream carries (local id, remote id announced in the device's OKAY)
  U3 host OKAYs on a stream never exceed the device WRTEs that went onto the wire for it
  U4 stop-and-wait: at most one unacknowledged host WRTE per stream
  U5 at most one host CLSE per stream, and nothing from the host on a stream after its CLSE
Completion rules (only when the caller says the operations succeeded):
  C1 host OKAYs == device WRTEs on the wire
  C2 every stream got exactly one host CLSE (answering the device's CLSE, or host-initiated)
"""


class St(object):
    __slots__ = ('local', 'remote', 'h_okay', 'd_wrte', 'h_wrte', 'd_okay', 'h_clse', 'd_clse', 'opened_ack', 'idx', 'dest')

    def __init__(self, local, idx, dest):
        self.local, self.idx, self.dest = local, idx, dest
        self.remote = None
        self.h_okay = self.d_wrte = self.h_wrte = self.d_okay = self.h_clse = self.d_clse = 0
        self.opened_ack = False


def check(events, completed=False, allow_unclosed=()):
    """Returns a list of (rule, message)."""
    out = []
    live = {}        # local id -> St (host side considers it open)
    allst = []
    by_remote = {}
    for who, p in events:
        if who == 'H':
            if p.cmd in (b'CNXN', b'AUTH', b'SYNC'):
                continue
            if p.cmd == b'OPEN':
                if not 1 <= p.a0 <= 0xFFFFFFFF:
                    out.append(('U1', 'OPEN with local id %d' % p.a0))
                if p.a1 != 0:
                    out.append(('U1', 'OPEN with arg1 %d' % p.a1))
                if not p.data.endswith(b'\0'):
                    out.append(('U1', 'OPEN destination %r not NUL-terminated' % (p.data[:32],)))
                if p.a0 in live:
                    out.append(('U1', 'OPEN reuses local id %d of a stream that is still open' % p.a0))
                s = St(p.a0, len(allst), p.data)
                live[p.a0] = s
                allst.append(s)
                continue
            s = live.get(p.a0)
            if s is None:
                # maybe closed already
                old = [x for x in allst if x.local == p.a0]
                if old and old[-1].h_clse:
                    out.append(('U5', 'host %s on stream %d after its CLSE' % (p.cmd.decode(), p.a0)))
                else:
                    out.append(('U2', 'host %s for unknown local id %d' % (p.cmd.decode(), p.a0)))
                continue
            if s.remote is None:
                out.append(('U2', 'host %s on stream %d before the device announced a remote id' % (p.cmd.decode(), p.a0)))
            elif p.a1 != s.remote:
                out.append(('U2', 'host %s on stream %d carries remote id %d, device announced %d' % (p.cmd.decode(), p.a0, p.a1, s.remote)))
            if p.cmd == b'OKAY':
                s.h_okay += 1
                if s.h_okay > s.d_wrte:
                    out.append(('U3', 'host sent OKAY #%d on stream %d but only %d device WRTEs were on the wire' % (s.h_okay, p.a0, s.d_wrte)))
            elif p.cmd == b'WRTE':
                s.h_wrte += 1
                if s.h_wrte - s.d_okay > 1:
                    out.append(('U4', 'host WRTE #%d on stream %d while WRTE #%d is still unacknowledged' % (s.h_wrte, p.a0, s.d_okay + 1)))
            elif p.cmd == b'CLSE':
                s.h_clse += 1
                del live[p.a0]
        else:
            if p.cmd in (b'CNXN', b'AUTH'):
                continue
            s = live.get(p.a1)
            if s is None:
                continue             # device packet for a stream the host has closed / stray traffic
            if p.cmd == b'OKAY':
                if not s.opened_ack:
                    s.opened_ack = True
                    s.remote = p.a0
                else:
                    s.d_okay += 1
            elif p.cmd == b'WRTE':
                s.d_wrte += 1
            elif p.cmd == b'CLSE':
                s.d_clse += 1
    if completed:
        for s in allst:
            if s.h_okay != s.d_wrte:
                out.append(('C1', 'stream %d (%r): %d device WRTEs on the wire but %d host OKAYs' % (s.local, s.dest[:16], s.d_wrte, s.h_okay)))
            if s.h_clse != 1 and s.idx not in allow_unclosed:
                out.append(('C2', 'stream %d (%r): host sent %d CLSE (device sent %d)' % (s.local, s.dest[:16], s.h_clse, s.d_clse)))
    return out, allst


def host_packets(events):
    return [p for who, p in events if who == 'H']


def host_log(events):
    return [p.key() for who, p in events if who == 'H']
