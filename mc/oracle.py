"""Oracles shared by the simulator-based checks."""
from . import monitor


def base_viol(s, completed, allow_unclosed=(), skip=()):
    """Unconditional checks of one finished session: model issues, frame parser, stream monitor."""
    env = s.env
    viol = [{'msg': '%s: %s' % i} for i in env.issues if i[0] not in skip]
    mon, streams = monitor.check(env.events, completed=completed, allow_unclosed=allow_unclosed)
    viol += [{'msg': 'stream monitor %s: %s' % m} for m in mon]
    if completed and env.dev is not None and not env.dev.idle():
        left = [o.pkt for st in env.dev.all_streams for o in st.q] + [o.pkt for o in env.dev.conn_q]
        viol.append({'msg': 'operation returned but device packets were never read: %r' % (left[:4],)})
    if env.dev is not None and env.dev.parser.partial() and completed:
        viol.append({'msg': 'host left %d bytes of an incomplete message on the wire' % env.dev.parser.partial()})
    return viol


def choose_cuts(ch, length, kmax):
    """Every set of <= kmax cut positions inside a byte string of the given length (free choices)."""
    if length <= 1 or kmax <= 0:
        return []
    k = ch.choose('ncuts', min(kmax, length - 1) + 1, 0)
    cuts, lo = [], 1
    for j in range(k):
        hi = length - 1 - (k - 1 - j)
        p = lo + ch.choose('cutpos', hi - lo + 1, 0)
        cuts.append(p)
        lo = p + 1
    return cuts


def compositions(n, idx):
    """The idx-th of the 2^(n-1) compositions of n (bit i set = boundary after unit i)."""
    out, run = [], 1
    for i in range(n - 1):
        if idx >> i & 1:
            out.append(run)
            run = 1
        else:
            run += 1
    if n:
        out.append(run)
    return out
