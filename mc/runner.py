"""./check <ID> [--tier quick|thorough] [--replay <file>] [--part <name>]"""
import argparse
import importlib
import json
import os
import sys
import time

from . import common, explore, findings, jsonx


class Part(object):
    """One exhaustive enumeration: scenarios x (choice lists within budgets)."""

    def __init__(self, name, scenarios, run_one, budgets=None, split=0, what='', bound='', exhaustive=True,
                 min_outcomes=2, deadline_s=None, workers=None, chunk=None):
        self.name = name
        self.scenarios = scenarios
        self.run_one = run_one
        self.budgets = budgets or {}
        self.split = split
        self.what = what
        self.bound = bound
        self.exhaustive = exhaustive
        self.min_outcomes = min_outcomes
        self.deadline_s = deadline_s
        self.workers = workers
        self.chunk = chunk


def load_check(prop):
    return importlib.import_module('mc.checks.%s' % prop.lower())


def write_replay(prop, part, params, v, tier='thorough'):
    cost, _ln, sidx, choices, expect, viol = v
    viol = dict(viol)
    params = viol.pop('replay_params', params)
    doc = {'property': prop, 'part': part, 'tier': tier, 'scenario_index': sidx, 'params': jsonx.enc_full(params),
           'choices': choices, 'expect': [list(e) for e in expect], 'deviation_cost': cost,
           'violation': jsonx.enc(viol)}
    body = json.dumps(doc, indent=1, sort_keys=True)
    name = '%s-%016x.json' % (prop, explore.digest((part, sidx, choices)))
    path = os.path.join(common.VERIF, 'replays', name)
    os.makedirs(os.path.dirname(path), exist_ok=True)
    with open(path, 'w') as f:
        f.write(body)
    return path


def do_replay(prop, path):
    mod = load_check(prop)
    with open(path) as f:
        doc = json.load(f)
    tier = doc.get('tier', 'thorough')
    params = jsonx.dec(doc['params'])
    if hasattr(mod, 'part_runner'):
        run_one = mod.part_runner(doc['part'])
    else:
        run_one = next(p.run_one for p in mod.parts(tier) if p.name == doc['part'])
    ch, obs = explore.replay(run_one, params, doc['choices'], [tuple(e) for e in doc.get('expect', [])] or None)
    kn = findings.known_ids(prop)
    bad = [v for v in (obs.get('viol') or []) if not (v.get('sig') and v['sig'] in kn)]
    print(json.dumps({'choices': ch.trace(), 'outcome': jsonx.enc(obs.get('outcome')),
                      'violations': jsonx.enc(obs.get('viol'))}, indent=1))
    if bad:
        print('VIOLATION property=%s replay=%s' % (prop, path))
        return 1
    print('replay of %s: property held (tier %s)' % (path, tier))
    return 0


def main(argv=None):
    ap = argparse.ArgumentParser()
    ap.add_argument('prop')
    ap.add_argument('--tier', default=os.environ.get('VERIF_TIER') or 'quick', choices=['quick', 'thorough'])
    ap.add_argument('--replay')
    ap.add_argument('--part', action='append')
    ap.add_argument('--no-evidence', action='store_true')
    a = ap.parse_args(argv)
    prop = a.prop.upper()
    common.import_repo()
    from . import harness
    harness.init_tmp()
    if a.replay:
        return do_replay(prop, a.replay)
    mod = load_check(prop)
    t0 = time.time()
    kn = findings.known_ids(prop)
    parts = mod.parts(a.tier)
    if a.part:
        parts = [p for p in parts if p.name in a.part]
    total = explore.Stats()
    part_cov = []
    status = 0
    viol_found = False
    lines = []
    for p in parts:
        tp = time.time()
        if getattr(p, 'custom', None):
            st = p.custom()
        else:
            st = explore.explore(p.scenarios, p.run_one, p.budgets, split=p.split, deadline_s=p.deadline_s or (1200 if a.tier == 'quick' else 10800),
                                 known_ids=kn, workers=p.workers, chunk=p.chunk)
        cov = {'part': p.name, 'what': p.what, 'bound': p.bound, 'scenarios': len(p.scenarios), 'executions': st.execs,
               'choice_points': st.points, 'max_depth': st.max_depth, 'distinct_outcomes': len(st.outcomes),
               'distinct_nontrivial': len(st.nontrivial), 'states': len(st.states), 'transitions': st.transitions,
               'max_deviation_cost_reached': st.max_cost, 'replay_determinism_reruns': st.replays,
               'violations': st.n_viol, 'known_finding_hits': {k: v[0] for k, v in st.known.items()},
               'caps_hit': st.caps, 'exhaustive_within_bound': bool(p.exhaustive and not st.caps),
               'counters': st.extra, 'wall_s': round(time.time() - tp, 2)}
        part_cov.append(cov)
        print('[%s/%s] scenarios=%d executions=%d points=%d depth<=%d outcomes=%d nontrivial=%d states=%d transitions=%d '
              'violations=%d known=%s caps=%s %.1fs' % (prop, p.name, len(p.scenarios), st.execs, st.points, st.max_depth,
                                                        len(st.outcomes), len(st.nontrivial), len(st.states), st.transitions,
                                                        st.n_viol, {k: v[0] for k, v in st.known.items()}, st.caps,
                                                        time.time() - tp), flush=True)
        for e in st.errors[:10]:
            print('HARNESS-ERROR: %s' % e)
        if st.errors:
            status = max(status, 2)
        if st.execs and len(st.outcomes) < p.min_outcomes:
            print('HARNESS-ERROR: part %s is vacuous: %d distinct outcome(s) from %d executions' % (p.name, len(st.outcomes), st.execs))
            status = max(status, 2)
        for v in st.violations[:5]:
            path = write_replay(prop, p.name, p.scenarios[v[2]], v, a.tier)
            lines.append('VIOLATION property=%s replay=%s' % (prop, path))
            print('  violation (part %s, scenario %d, cost %d): %s' % (p.name, v[2], v[0], v[5].get('msg')))
        if st.n_viol:
            viol_found = True
        # merge, keeping part-distinct digests apart
        st.nontrivial = set((p.name, d) for d in st.nontrivial)
        st.states = set((p.name, d) for d in st.states)
        st.outcomes = {(p.name, k): v for k, v in st.outcomes.items()}
        for s in st.samples:
            s['part'] = p.name
        total.merge(st)
    for fid in kn:
        e = findings.entry(fid)
        if fid in total.known:
            print('KNOWN-FINDING: property=%s %s: %s (%d executions; e.g. %s)' % (
                prop, fid, e['what'], total.known[fid][0], json.dumps(jsonx.enc(total.known[fid][1]))))
        else:
            print('note: known finding %s was not triggered by this run' % fid)
    for ln in lines:
        print(ln)
    if viol_found:
        # a violation with a replay file outranks harness complaints (e.g. a change that leaks state between executions also
        # makes the in-process determinism re-run differ); without any violation, harness errors give exit status 2
        status = 1
    wall = time.time() - t0
    if not a.no_evidence and not a.part and status != 2:
        level = mod.LEVEL
        extra = mod.coverage_extra(a.tier, part_cov) if hasattr(mod, 'coverage_extra') else {}
        samples = jsonx.enc(total.samples[:6]) or [{'note': 'no sample recorded'}]
        cov = {'evaluations': total.execs, 'distinct_nontrivial': len(total.nontrivial), 'rule': mod.RULE,
               'samples': samples, 'exhaustive': all(c['exhaustive_within_bound'] for c in part_cov),
               'choice_points': total.points, 'max_depth': total.max_depth, 'distinct_outcomes': len(total.outcomes),
               'replay_determinism_reruns': total.replays, 'parts': part_cov,
               'known_finding_hits': {k: v[0] for k, v in total.known.items()},
               'caps_hit': total.caps, 'workers': common.WORKERS, 'repo': common.REPO}
        if level == 'model_checking':
            cov.update(states=len(total.states), transitions=total.transitions,
                       traces_validated_against_impl=total.execs,
                       explanation='every explored trace is an execution of the real implementation under a controlled '
                                   'environment, so traces validated == executions')
        cov.update(extra)
        ev = {'property_id': prop, 'tier': a.tier, 'seed': common.SEED, 'level': level, 'coverage': cov,
              'assumptions': list(mod.ASSUMPTIONS), 'wall_s': round(wall, 2), 'violations': total.n_viol}
        os.makedirs(os.path.join(common.VERIF, 'evidence'), exist_ok=True)
        tmp = os.path.join(common.VERIF, 'evidence', '%s.json.tmp' % prop)
        with open(tmp, 'w') as f:
            json.dump(ev, f, indent=1, sort_keys=True)
            f.write('\n')
        os.replace(tmp, os.path.join(common.VERIF, 'evidence', '%s.json' % prop))
    print('%s tier=%s seed=%d executions=%d wall=%.1fs -> %s' % (prop, a.tier, common.SEED, total.execs, wall,
                                                             {0: 'HELD', 1: 'VIOLATED', 2: 'HARNESS ERROR'}[status]))
    return status


if __name__ == '__main__':
    sys.exit(main())
