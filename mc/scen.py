"""Standard device configurations and operation sequences shared by several checks."""
from .common import rng


def std_cfg(**over):
    r = rng('std')
    fdata = bytes(r.randrange(256) for _ in range(10))
    cfg = {
        'shell': {b'shell:cmd1': [b'ab\xc3', b'\xa9\n'], b'exec:cmd1': [b'\xff\x00z'], b'shell:empty': []},
        'fs': {'files': {b'/f': {'data': fdata, 'mode': 0o100644, 'mtime': 0x5F5E1000}},
               'dirs': {b'/d': [(b'a', 0o100644, 3, 5), (b'\xff\x00/', 0x41ED, 0xFFFFFFFF, 0x80000000)]}},
        'records': [4],
        'cut': {'at': [12, 14]},
    }
    cfg.update(over)
    return cfg


def std_ops(push_size=40):
    r = rng('push')
    pdata = bytes(r.randrange(256) for _ in range(push_size))
    return [('connect',), ('shell', 'cmd1', {'decode': False}), ('stat', '/f'), ('list', '/d'), ('pull', '/f', 'bytesio'),
            ('push', ('bytes', pdata), '/g', {'mtime': 7})]


def fs_view(env):
    """What the model filesystem saw (ground truth for push)."""
    return [(s[0], s[1], s[2], s[3], s[4]) for s in env.fs.sends]
