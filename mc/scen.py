"""Standard device configurations and operation sequences shared by several checks."""
from .common import rng


def std_cfg(**over):
    r = rng('std')
    fdata = bytes(r.randrange(256) for _ in range(10))
    cfg = {
        'shell': {b'shell:cmd1': [b'ab\xc3', b'\xa9\n', b'\x00\x00'], b'exec:cmd1': [b'\xff\x00z'], b'shell:empty': []},
        'fs': {'files': {b'/f': {'data': fdata, 'mode': 0o100644, 'mtime': 0x5F5E1000}},
               'dirs': {b'/d': [(b'a', 0o100644, 3, 5), (b'\xff\x00/', 0x41ED, 0xFFFFFFFF, 0x80000000)]}},
        'records': [4],
        'cut': {'at': [12, 14]},
    }
    cfg.update(over)
    return cfg


def std_ops(push_size=40):
    r = rng('push')
    pdata = bytes(r.randrange(256) for _ in range(push_size))
    return [('connect',), ('shell', 'cmd1', {'decode': False}), ('stat', '/f'), ('list', '/d'), ('pull', '/f', 'bytesio'),
            ('push', ('bytes', pdata), '/g', {'mtime': 7})]


def fs_view(env):
    """What the model filesystem saw (ground truth for push)."""
    return [(s[0], s[1], s[2], s[3], s[4]) for s in env.fs.sends]


# ---------------------------------------------------------------------------------------------- the 8-operation alphabet
REMOTE_FAMILIES = {
    'small': (0x1001, 0x1002, 0x1003, 0x1004, 0x1005, 0x1006),
    'extreme': (0xFFFFFFFF, 0x80000000, 0xFFFFFFFE, 0x7FFFFFFF, 0x80000001, 0xFFFFFFFD),
    'same': (0x5A5A5A5A,),
    'mirror': (2, 1, 4, 3, 6, 5, 8, 7),   # the device's ids mirror the host's: stream (local 1, remote 2) next to (local 2, remote 1)          # the device may reuse its id for consecutive streams
}
OPS8 = ('shell', 'exec_out', 'streaming_shell', 'root', 'list', 'stat', 'pull', 'push')
SHELL_OUT = b'l1\xc3\xa9\nl2\x00\xff'
FILE_F = bytes(range(7, 57))
DIR_D = [(b'a', 0o100644, 3, 5), (b'\xff\x00/', 0x41ED, 0xFFFFFFFF, 0x80000000)]


def chunk(data, mode):
    if mode == 'one' or not data:
        return [data] if data else []
    if mode == 'two':
        h = max(1, len(data) // 2)
        return [c for c in (data[:h], data[h:]) if c]
    return [data[i:i + 1] for i in range(len(data))]


def ops_cfg(chunking='one', maxdata=1024 * 1024, clse='after-ack', family='small', push_size=40):
    cfg = {
        'maxdata': maxdata,
        'clse': clse,
        'remote_ids': REMOTE_FAMILIES[family],
        'shell': {b'shell:c': chunk(SHELL_OUT, chunking), b'exec:c': chunk(SHELL_OUT[::-1], chunking), b'root:': chunk(b'restarting adbd as root\n', chunking)},
        'fs': {'files': {b'/f': {'data': FILE_F, 'mode': 0o100644, 'mtime': 0x5F5E1000}}, 'dirs': {b'/d': DIR_D}},
        'records': {'one': None, 'two': [len(FILE_F) // 2], 'bytes': 1}[chunking],
        'cut': {'one': None, 'two': {'sizes': [13], 'size': maxdata}, 'bytes': {'size': 1}}[chunking],
    }
    return cfg


def push_data(size):
    return rng('pushdata', size).randbytes(size) if size else b''


def op_tuple(name, push_size=40):
    return {'shell': ('shell', 'c', {'decode': False}), 'exec_out': ('exec_out', 'c', {'decode': False}),
            'streaming_shell': ('streaming_shell', 'c', {'decode': False}), 'root': ('root',), 'list': ('list', '/d'), 'stat': ('stat', '/f'),
            'pull': ('pull', '/f', 'bytesio'), 'push': ('push', ('bytes', push_data(push_size)), '/g', {'mtime': 7})}[name]


def op_expected(name, cfg):
    sh = cfg['shell']
    return {'shell': ('ok', b''.join(sh[b'shell:c'])), 'exec_out': ('ok', b''.join(sh[b'exec:c'])), 'streaming_shell': ('ok', list(sh[b'shell:c'])),
            'root': ('ok', None), 'list': ('ok', [(bytearray(n), m, z, t) for (n, m, z, t) in DIR_D]), 'stat': ('ok', (0o100644, len(FILE_F), 0x5F5E1000)),
            'pull': ('ok', FILE_F), 'push': ('ok', None)}[name]
