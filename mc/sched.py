"""Controlled thread scheduler (CHESS-style).  Every operation runs in a real OS thread, but exactly one thread
holds the baton at any time; the baton changes hands only at scheduling points:

  * before every SchedLock.acquire and after every release            ('acq', 'rel')
  * before every transport call                                       ('io')
  * in trace mode, before every line of selected code objects         ('line')

Option 0 at a point is "keep running the current thread" (cost 0); switching away from an enabled thread costs one
preemption; when the current thread is blocked or finished, any choice is free.  A thread waiting for a held
SchedLock is disabled.  No enabled thread while some are unfinished = deadlock; a step budget = livelock verdict.
"""
import sys
import threading

from .common import HarnessError


class SchedAbort(BaseException):
    """Unwinds a controlled thread when the execution is being torn down."""


class Task(object):
    def __init__(self, tid, fn, name):
        self.tid, self.fn, self.name = tid, fn, name
        self.sem = threading.Semaphore(0)
        self.done = False
        self.blocked_on = None
        self.result = None
        self.thread = None
        self.label = 'start'
        self.started = False


_CUR = threading.local()


def current_task():
    return getattr(_CUR, 'task', None)


class SchedLock(object):
    """Replacement for threading.Lock inside adb_shell.adb_device while a Scheduler is active."""

    sched = None     # class attribute set by Scheduler

    def __init__(self):
        self.owner = None
        self.name = None
        self.acquisitions = 0

    def acquire(self, blocking=True, timeout=-1):
        sc = SchedLock.sched
        t = current_task()
        if sc is None or t is None:
            # outside a controlled run (object construction, sequential set-up)
            if self.owner is not None:
                raise HarnessError('uncontrolled acquire of a held SchedLock')
            self.owner = 'main'
            return True
        sc.point('acq')
        while self.owner is not None:
            if self.owner is t:
                sc.fail('thread %s acquires a lock it already holds (self-deadlock)' % t.name)
            if not blocking:
                return False
            if timeout is not None and timeout >= 0 and sc.ch.choose('lock-timeout', 2, (0, 1)) == 1:
                return False          # acquire(timeout=...) may give up while the lock is still held: a budgeted choice
            t.blocked_on = self
            sc.switch_away(t)
        t.blocked_on = None
        self.owner = t
        self.acquisitions += 1
        return True

    def release(self):
        sc = SchedLock.sched
        t = current_task()
        if self.owner is None:
            raise RuntimeError('release unlocked lock')
        self.owner = None
        if sc is not None and t is not None:
            sc.point('rel')

    def locked(self):
        return self.owner is not None

    def __enter__(self):
        self.acquire()
        return True

    def __exit__(self, *a):
        self.release()


class Scheduler(object):
    def __init__(self, ch, max_steps=20000, trace_codes=None, kind='sched', opcodes=False):
        self.ch = ch
        self.kind = kind
        self.tasks = []
        self.max_steps = max_steps
        self.steps = 0
        self.preemptions = 0
        self.trace_codes = set(trace_codes or ())
        self.verdict = None            # 'deadlock: ...' / 'livelock: ...' / 'error: ...'
        self.aborting = False
        self.all_done = threading.Event()
        self.states = []
        self.locks = []
        self.switches = 0
        self.opcodes = opcodes

    # ------------------------------------------------------------------ set-up
    def spawn(self, fn, name=None):
        t = Task(len(self.tasks), fn, name or 't%d' % len(self.tasks))
        self.tasks.append(t)
        return t

    def enabled(self, t):
        return (not t.done) and (t.blocked_on is None or t.blocked_on.owner is None)

    def _body(self, t):
        _CUR.task = t
        t.sem.acquire()
        try:
            if self.aborting:
                raise SchedAbort()
            if self.trace_codes:
                sys.settrace(self._tracer)
            t.started = True
            t.result = t.fn()
        except SchedAbort:
            t.result = ('aborted',)
        except BaseException as e:  # pylint: disable=broad-except
            t.result = ('harness-exc', type(e).__name__, str(e)[:300])
            if isinstance(e, HarnessError):
                if self.verdict is None or not self.verdict.startswith('error'):
                    self.verdict = 'error: %s: %s' % (type(e).__name__, e)
                self.aborting = True
                for x in self.tasks:
                    x.sem.release()
        finally:
            sys.settrace(None)
            t.done = True
            t.label = 'done'
            _CUR.task = None
            self._finished(t)

    def _tracer(self, frame, event, arg):
        if event == 'call' and frame.f_code in self.trace_codes:
            if self.opcodes:
                frame.f_trace_opcodes = True
            return self._local
        return None

    def _local(self, frame, event, arg):
        if event == 'line' and not self.opcodes:
            self.point('line', frame.f_lineno)
        elif event == 'opcode':
            self.point('op', frame.f_lasti)
        return self._local

    # ------------------------------------------------------------------ running
    def run(self):
        SchedLock.sched = self
        try:
            for t in self.tasks:
                t.thread = threading.Thread(target=self._body, args=(t,), daemon=True)
                t.thread.start()
            first = self.ch.choose(self.kind, len(self.tasks), 0) if len(self.tasks) > 1 else 0
            self.tasks[first].sem.release()
            if not self.all_done.wait(timeout=120):
                self.verdict = self.verdict or 'error: scheduler wall-clock watchdog (120 s)'
                self._abort()
            for t in self.tasks:
                t.thread.join(timeout=10)
                if t.thread.is_alive():
                    raise HarnessError('controlled thread %s did not terminate' % t.name)
        finally:
            SchedLock.sched = None
        return [t.result for t in self.tasks]

    def _abort(self):
        self.aborting = True
        for t in self.tasks:
            t.sem.release()

    def fail(self, why):
        if self.verdict is None:
            self.verdict = why
        self._abort()
        raise SchedAbort()

    def _pick(self, cur):
        """Choose the next task to run.  cur may be None/blocked/done."""
        en = [t for t in self.tasks if self.enabled(t)]
        if not en:
            return None
        cur_ok = cur is not None and cur in en
        if cur_ok:
            order = [cur] + [t for t in en if t is not cur]
            costs = tuple([0] + [1] * (len(order) - 1))
        else:
            order = en
            costs = 0
        if len(order) == 1:
            return order[0]
        self.states.append((tuple((t.label, t.blocked_on is not None, t.done) for t in self.tasks), tuple(None if l.owner is None else getattr(l.owner, 'tid', -1) for l in self.locks)))
        i = self.ch.choose(self.kind, len(order), costs)
        if cur_ok and i:
            self.preemptions += 1
        return order[i]

    def point(self, why, line=None):
        t = current_task()
        if t is None:
            return
        if self.aborting:
            raise SchedAbort()
        self.steps += 1
        if self.steps > self.max_steps:
            self.fail('livelock: more than %d scheduling points' % self.max_steps)
        t.label = why if line is None else '%s:%d' % (why, line)
        nxt = self._pick(t)
        if nxt is None:
            self.fail('deadlock: no enabled thread (%s)' % self._describe())
        if nxt is not t:
            self._handoff(t, nxt)

    def switch_away(self, t):
        """t cannot continue (blocked on a lock): run someone else; returns when t is scheduled again."""
        if self.aborting:
            raise SchedAbort()
        self.steps += 1
        if self.steps > self.max_steps:
            self.fail('livelock: more than %d scheduling points' % self.max_steps)
        nxt = self._pick(t)
        if nxt is None:
            self.fail('deadlock: no enabled thread (%s)' % self._describe())
        if nxt is not t:
            self._handoff(t, nxt)

    def _handoff(self, t, nxt):
        self.switches += 1
        nxt.sem.release()
        t.sem.acquire()
        if self.aborting:
            raise SchedAbort()

    def _finished(self, t):
        if self.aborting:
            if all(x.done for x in self.tasks):
                self.all_done.set()
            return
        if all(x.done for x in self.tasks):
            self.all_done.set()
            return
        nxt = self._pick(None)
        if nxt is None:
            if self.verdict is None:
                self.verdict = 'deadlock: no enabled thread (%s)' % self._describe()
            self._abort()
            return
        nxt.sem.release()

    def _describe(self):
        return ', '.join('%s:%s%s' % (t.name, t.label, ' blocked' if t.blocked_on is not None else '') for t in self.tasks if not t.done)
