"""Harness self-test run by MANIFEST.setup_cmd."""
import sys

from . import common


def main():
    common.import_repo()
    from . import chooser, explore

    def run_one(params, ch):
        a = ch.choose('x', 3)
        b = ch.choose('y', 2)
        return {'outcome': (a, b), 'viol': []}
    st = explore.explore([0], run_one, {'x': 1, 'y': 1}, workers=1)
    assert st.execs == 6 and len(st.outcomes) == 6, (st.execs, len(st.outcomes))
    print('selftest ok')
    return 0


if __name__ == '__main__':
    sys.exit(main())
