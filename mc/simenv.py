"""Execution environment: virtual clock, in-memory transports (sync and async twins) bound to adbsim."""
import math

from . import adbsim, frames
from .common import HarnessError


class Hang(Exception):
    """A transport call would block forever (timeout None and nothing will ever arrive)."""


class Watchdog(Exception):
    """The per-execution transport-call budget was exhausted (non-termination verdict)."""


class InjectedReset(ConnectionResetError):
    pass


class VClock(object):
    """Stand-in for the `time` module attribute of adb_device / adb_device_async."""

    def __init__(self, start=1700000000.0):
        self.now = start
        self.start = start

    def time(self):
        return self.now

    def sleep(self, t):
        self.now += t

    def advance(self, t):
        if t and t > 0:
            self.now += t


class Stall(object):
    """From device frame `frame` on, the device stops sending what the host is waiting for.

    kind: silence | eof | trickle (first j bytes of the awaited frame, one per 0.9 x timeout, then silence) |
          other (endless traffic for another stream) | unexpected (endless SYNC packets carrying this stream's ids)"""

    def __init__(self, spec):
        self.frame = spec['frame']
        self.kind = spec['kind']
        self.j = spec.get('j', 1)
        self.active = False
        self.t0 = None
        self.calls0 = None
        self.buf = bytearray()
        self.ids = (0, 0)
        self.sent = 0

    def timeout(self, env, timeout):
        from adb_shell.exceptions import TcpTimeoutException
        if timeout is None:
            raise Hang('bulk_read(timeout=None) while the device is stalled')
        env.clock.advance(timeout)
        raise TcpTimeoutException('sim: read timed out after %r s (stalled device)' % (timeout,))

    def read(self, env, n, timeout):
        if not self.active:
            if env.wire or env.frames_seen < self.frame:
                return None
            if env.frames_seen == self.frame and not env.dev.ready_queues(env.clock.now) and self.kind in ('trickle', 'trickle-eof', 'unexpected', 'wrte', 'wrte0'):
                return None                   # the awaited frame does not exist yet (host has to write first)
            self.active = True
            self.t0 = env.clock.now
            self.calls0 = env.calls
            self.ev0 = len(env.events)
            if self.kind in ('trickle', 'trickle-eof', 'unexpected', 'wrte', 'wrte0'):
                fr = env._frame()
                if fr is not None:
                    self.ids = (int.from_bytes(fr[4:8], 'little'), int.from_bytes(fr[8:12], 'little'))
                    if self.kind in ('trickle', 'trickle-eof'):
                        j = self.j if self.j >= 0 else len(fr) + self.j
                        self.buf = bytearray(fr[:max(0, min(j, len(fr) - 1))])
        k = self.kind
        if k == 'silence':
            return self.timeout(env, timeout)
        if k == 'eof':
            return b''
        if k == 'trickle-eof':
            # the first j bytes of the awaited frame arrive at once, then the peer's sending side is closed: empty reads, no exception
            out = bytes(self.buf[:n])
            del self.buf[:n]
            return out
        if k == 'trickle':
            if not self.buf:
                return self.timeout(env, timeout)
            env.clock.advance(0.9 * timeout if timeout else 0.0)
            out = bytes(self.buf[:1])
            del self.buf[:1]
            return out
        if k in ('wrte', 'wrte0'):
            # reactive: the first WRTE at once, every further one only after the host acknowledged the previous one (stop-and-wait)
            if not self.buf:
                acks = sum(1 for w, p in env.events[self.ev0:] if w == 'H' and p.cmd == b'OKAY' and p.a0 == self.ids[1])
                if self.sent > acks:
                    return self.timeout(env, timeout)
                data = b'' if k == 'wrte0' else b'more%d' % self.sent       # wrte0: zero-length writes (a keep-alive that carries nothing)
                self.buf += frames.encode(b'WRTE', self.ids[0], self.ids[1], data) + data
                self.sent += 1
            out = bytes(self.buf[:n])
            del self.buf[:n]
            return out
        if k in ('other', 'unexpected'):
            if not self.buf:
                if k == 'other':
                    data = b'noise%d' % self.sent
                    self.buf += frames.encode(b'WRTE', 0x6666, 0x7777, data) + data
                else:
                    self.buf += frames.encode(b'SYNC', self.ids[0], self.ids[1])
                self.sent += 1
            out = bytes(self.buf[:n])
            del self.buf[:n]
            return out
        raise HarnessError('unknown stall kind %r' % (k,))


class Env(object):
    def __init__(self, ch, cfg, eps=0.0, frag=False, wcap=False, order_budgeted=False, max_calls=200000):
        self.ch = ch
        self.cfg = cfg
        self.clock = VClock()
        self.eps = eps
        self.frag = frag
        self.wcap = wcap
        self.order_budgeted = order_budgeted
        self.max_calls = max_calls
        self.events = []          # ('H'|'D', Packet) in wire order
        self.issues = []          # (code, message) raised by the model / monitors while running
        self.sync_requests = []
        self.fs = adbsim.FS(cfg.get('fs') or {})
        self.dev = None
        self.sessions = 0
        self.connected = False
        self.calls = 0            # transport calls (connect/close/read/write)
        self.io_log = []          # ('r', n, timeout, got) / ('w', n, timeout, accepted) when cfg['log_io']
        self.fault = cfg.get('faults') or {}     # call index -> kind
        self.sticky = None
        self.wire = bytearray()   # bytes of the frame(s) currently being transmitted device -> host
        self.frame_left = 0       # bytes that remain of the current frame
        self.host_bytes = 0
        self.wcap_global = cfg.get('wcap_global')
        self.eof = False
        self.stall = Stall(cfg['stall']) if cfg.get('stall') else None
        self.sched = None         # thread scheduler / vloop gate
        self.timeouts = []        # timeout values passed to bulk_read/bulk_write
        self.make_auth = None
        self.session_over = None   # per-connect overrides set by the harness: {'auth': spec, 'connect_error': kind}
        self.auths = []
        self.connect_error = cfg.get('connect_error')
        self.closes = 0
        self.connects = 0
        self.write_calls = 0
        self.frames_seen = 0
        self.who = None
        self.rx_raw = bytearray() if cfg.get('keep_rx') else None
        self.rx_at_fault = None
        self.open_by = {}
        self.mutated = False
        self.policy_flip = 0
        self.session_banner = None
        self.writers = None       # async twin: [(asyncio task, nbytes)] per bulk_write when set to a list
        self.write_hook = None    # called with the bytes of every bulk_write (harness-side effects tied to an instant of the execution)

    def _frame(self):
        """Next device frame for the wire (None when nothing is ready), with the scenario's wire mutation applied."""
        fr = self.dev.next_frame(self.clock.now)
        if fr is None:
            return None
        k = self.frames_seen
        self.frames_seen += 1
        m = self.cfg.get('wire_mut')
        if m and m['frame'] == k:
            fr = bytearray(fr)
            if m['kind'] == 'bit':
                if m['off'] < len(fr):
                    fr[m['off']] ^= 1 << m['bit']
                    self.mutated = True
            elif m['kind'] == 'cmd':
                fr[0:4] = int(m['word']).to_bytes(4, 'little')
                if m.get('magic'):
                    fr[20:24] = (int(m['word']) ^ 0xFFFFFFFF).to_bytes(4, 'little')
                if m.get('lonely'):
                    # a header of an unknown kind that announces a payload which never follows (newer protocol packet, garbage)
                    fr[12:16] = (max(1, len(fr) - 24) if len(fr) > 24 else 5).to_bytes(4, 'little')
                    del fr[24:]
                self.mutated = True
            fr = bytes(fr)
        return fr

    def order_costs(self, n):
        return tuple([0] + [1] * (n - 1)) if self.order_budgeted else tuple([0] * n)

    # ------------------------------------------------------------------ transport core (shared by both twins)
    def _tick(self, what):
        self.calls += 1
        if self.calls > self.max_calls:
            raise Watchdog('more than %d transport calls' % self.max_calls)
        idx = self.calls - 1
        kind = self.fault.get(idx)
        if self.sticky:
            kind = self.sticky
        self.clock.advance(self.eps)
        return kind

    def t_connect(self, timeout):
        kind = self._tick('connect')
        self.connects += 1
        over = self.session_over or {}
        if kind or self.connect_error or over.get('connect_error'):
            k = kind or self.connect_error or over.get('connect_error')
            self.session_over = None
            if k == 'timeout':
                from adb_shell.exceptions import TcpTimeoutException
                raise TcpTimeoutException('injected connect timeout')
            raise ConnectionRefusedError('injected connect failure')
        self.connected = True
        self.sessions += 1
        self.wire = bytearray()
        self.frame_left = 0
        self.eof = False
        self.sticky = None
        stale = []
        if self.cfg.get('carry_stale') and self.dev is not None:
            outs = [o for q in [self.dev.conn_q] + [st.q for st in self.dev.all_streams] for o in q]
            stale = [o.pkt for o in sorted(outs, key=lambda o: o.seq)]
        self.dev = adbsim.Device(self, self.cfg)
        self.dev.stale = stale
        self.session_over = None

    def t_close(self):
        self.calls += 1
        self.closes += 1
        self.connected = False
        self.sticky = None

    def _fault(self, kind, timeout):
        if self.rx_at_fault is None and self.rx_raw is not None:
            self.rx_at_fault = len(self.rx_raw)        # what the device had received when the first injected fault fired
        if kind == 'timeout':
            from adb_shell.exceptions import TcpTimeoutException
            self.clock.advance(timeout or 0)
            raise TcpTimeoutException('injected timeout')
        if kind == 'reset':
            self.sticky = 'reset'
            raise InjectedReset('injected connection reset')
        if kind == 'eof':
            self.sticky = 'eof'
            return True
        if kind == 'halfclose':
            # the peer shut down its sending side only: reads return b'' from now on, writes are still accepted (and go nowhere)
            self.sticky = 'halfclose'
            return True
        raise HarnessError('unknown fault kind %r' % (kind,))

    def t_read(self, n, timeout):
        kind = self._tick('read')
        self.timeouts.append(('r', timeout))
        if not self.connected:
            raise ConnectionError('bulk_read on a transport that is not connected')
        if kind:
            if self._fault(kind, timeout):
                return b''
        if n <= 0:
            self.issues.append(('read', 'bulk_read called with numbytes=%r' % (n,)))
            return b''
        dev = self.dev
        if self.stall is not None:
            r = self.stall.read(self, n, timeout)
            if r is not None:
                return r
        if self.eof:
            return b''
        if not self.wire:
            fr = self._frame()
            if fr is None:
                t = dev.next_avail()
                if t is not None and (timeout is None or t <= self.clock.now + timeout):
                    self.clock.now = max(self.clock.now, t)
                    fr = self._frame()
                if fr is None:
                    if timeout is None:
                        raise Hang('bulk_read(timeout=None) with nothing ever arriving')
                    self.clock.advance(timeout)
                    from adb_shell.exceptions import TcpTimeoutException
                    raise TcpTimeoutException('sim: read timed out after %r s' % (timeout,))
            self.wire += fr
            self.frame_left = len(fr)
        if n > self.frame_left:
            self.issues.append(('overread', 'bulk_read asked for %d bytes but only %d remain in the current packet' % (n, self.frame_left)))
            while len(self.wire) < n:                      # a byte pipe would hand over following frames too
                fr = self._frame()
                if fr is None:
                    break
                self.wire += fr
        m = min(n, len(self.wire))
        k = m
        pol = self.cfg.get('frag_policy')
        if pol:
            self.policy_flip += 1
            if pol == 'one':
                k = 1
            elif pol == 'two':
                k = min(m, 2)
            elif pol == 'alt-empty-one':
                k = 0 if self.policy_flip % 2 else 1
            elif pol == 'n-1':
                k = m - 1 if m > 1 else m
            elif pol == 'half':
                k = (m + 1) // 2
            elif pol == 'empty-then-full':
                k = 0 if self.policy_flip % 2 else m
            else:
                raise HarnessError('unknown frag policy %r' % (pol,))
        elif self.frag:
            sizes = [m]
            for c in (1, m - 1, (m + 1) // 2, 0):
                if 0 <= c < m and c not in sizes:
                    sizes.append(c)
            k = sizes[self.ch.choose('frag', len(sizes))]
        out = bytes(self.wire[:k])
        del self.wire[:k]
        self.frame_left = max(0, self.frame_left - k)
        if not self.wire:
            self.frame_left = 0
        return out

    def t_write(self, data, timeout):
        kind = self._tick('write')
        self.write_calls += 1
        self.timeouts.append(('w', timeout))
        if not self.connected:
            raise ConnectionError('bulk_write on a transport that is not connected')
        if kind:
            if kind == 'eof':
                kind = 'reset'          # writing to a closed peer
            if self._fault(kind, timeout):
                return len(data)        # half-closed connection: accepted, never delivered
        if self.write_hook is not None:
            self.write_hook(data)
        n = len(data)
        k = n
        if self.wcap_global:
            k = min(n, self.wcap_global)
        if self.wcap and n > 1:
            sizes = [k]
            for c in (1, n - 1, (n + 1) // 2):
                if 0 < c < n and c not in sizes:
                    sizes.append(c)
            k = sizes[self.ch.choose('wcap', len(sizes))]
        self.host_bytes += k
        if self.rx_raw is not None:
            self.rx_raw += data[:k]
        self.dev.feed(bytes(data[:k]))
        return k


def make_sync_transport(env):
    from adb_shell.transport.base_transport import BaseTransport

    class SimTransport(BaseTransport):
        def __init__(self, env):
            self.env = env

        def connect(self, transport_timeout_s):
            self._pt()
            self.env.t_connect(transport_timeout_s)

        def close(self):
            self.env.t_close()

        def bulk_read(self, numbytes, transport_timeout_s):
            self._pt()
            return self.env.t_read(numbytes, transport_timeout_s)

        def bulk_write(self, data, transport_timeout_s):
            self._pt()
            return self.env.t_write(data, transport_timeout_s)

        def _pt(self):
            if self.env.sched is not None:
                self.env.sched.point('io')

    return SimTransport(env)


def make_async_transport(env):
    from adb_shell.transport.base_transport_async import BaseTransportAsync

    class SimTransportAsync(BaseTransportAsync):
        def __init__(self, env):
            self.env = env

        async def connect(self, transport_timeout_s):
            await self._gate()
            self.env.t_connect(transport_timeout_s)

        async def close(self):
            await self._gate()
            self._flush()
            self.env.t_close()

        async def bulk_read(self, numbytes, transport_timeout_s):
            await self._gate()
            self._flush()
            return self.env.t_read(numbytes, transport_timeout_s)

        async def bulk_write(self, data, transport_timeout_s):
            await self._gate()
            self._flush()
            if self.env.writers is not None:
                import asyncio
                self.env.writers.append((asyncio.current_task(), len(data)))
            if self.env.cfg.get('lazy_write'):
                # like asyncio's StreamWriter: the buffer is accepted at once and kept BY REFERENCE; its bytes leave at the next transport
                # call.  A caller that reuses (mutates) the object it handed over corrupts what is still queued.
                self._held = data
                return len(data)
            return self.env.t_write(data, transport_timeout_s)

        def _flush(self):
            held, self._held = getattr(self, '_held', None), None
            if held is not None:
                self.env.t_write(bytes(held), None)

        async def _gate(self):
            if self.env.sched is not None:
                await self.env.sched.gate()

    return SimTransportAsync(env)
