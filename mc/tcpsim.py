"""Real-socket plumbing: a loopback server thread that runs adbsim, and a lock-step peer for the transport scripts."""
import select
import socket
import threading
import time

from . import simenv
from .chooser import FixedChooser


class SimServer(object):
    """Accepts connections on 127.0.0.1 and serves the device model over them (one at a time)."""

    def __init__(self, cfg, rcvbuf=None, slow=0.0, frag=None, stall=None):
        self.cfg = cfg
        self.stall = stall        # (after_bytes, seconds): the device stops reading once, for that long, after that many bytes (then reads on)
        self.frag = frag          # cycle of piece sizes: the device's bytes leave in pieces that ignore packet boundaries, a pause after each
        self.frag_i = 0
        self.env = simenv.Env(FixedChooser(), cfg)
        self.slow = slow
        self.lsock = socket.socket()
        self.lsock.setsockopt(socket.SOL_SOCKET, socket.SO_REUSEADDR, 1)
        if rcvbuf:
            self.lsock.setsockopt(socket.SOL_SOCKET, socket.SO_RCVBUF, rcvbuf)
        self.lsock.bind(('127.0.0.1', 0))
        self.lsock.listen(4)
        self.port = self.lsock.getsockname()[1]
        self.stop = False
        self.error = None
        self.rx_bytes = 0
        self.thread = threading.Thread(target=self._run, daemon=True)
        self.thread.start()

    def _run(self):
        try:
            self.lsock.settimeout(0.2)
            while not self.stop:
                try:
                    conn, _ = self.lsock.accept()
                except socket.timeout:
                    continue
                self._serve(conn)
        except Exception as e:  # pylint: disable=broad-except
            self.error = repr(e)

    def _serve(self, conn):
        env = self.env
        env.t_connect(None)
        conn.settimeout(0.2)
        try:
            while not self.stop:
                try:
                    data = conn.recv(1024 if self.slow else 65536)
                except socket.timeout:
                    continue
                except OSError:
                    break
                if not data:
                    break
                self.rx_bytes += len(data)
                if env.rx_raw is not None:
                    env.rx_raw += data
                if self.stall and self.rx_bytes >= self.stall[0]:
                    time.sleep(self.stall[1])
                    self.stall = None
                if self.slow:
                    time.sleep(self.slow)
                env.dev.feed(data)
                while True:
                    fr = env.dev.next_frame(env.clock.now)
                    if fr is None:
                        break
                    conn.settimeout(60)
                    if self.frag:
                        pend = bytearray(fr)
                        while True:                      # everything that is ready goes out as one byte stream, cut by the size cycle
                            more = env.dev.next_frame(env.clock.now)
                            if more is None:
                                break
                            pend += more
                        conn.setsockopt(socket.IPPROTO_TCP, socket.TCP_NODELAY, 1)
                        while pend:
                            n = self.frag[self.frag_i % len(self.frag)]
                            self.frag_i += 1
                            conn.sendall(bytes(pend[:n]))
                            del pend[:n]
                            time.sleep(0.002)
                    else:
                        conn.sendall(fr)
                    conn.settimeout(0.2)
        finally:
            try:
                conn.close()
            except OSError:
                pass

    def close(self):
        self.stop = True
        self.thread.join(5)
        try:
            self.lsock.close()
        except OSError:
            pass


class Peer(object):
    """The far end of a transport under test, driven in lock-step by the same thread."""

    def __init__(self):
        self.lsock = socket.socket()
        self.lsock.setsockopt(socket.SOL_SOCKET, socket.SO_REUSEADDR, 1)
        self.lsock.bind(('127.0.0.1', 0))
        self.lsock.listen(4)
        self.port = self.lsock.getsockname()[1]
        self.conn = None

    def accept(self, timeout=5.0):
        r, _, _ = select.select([self.lsock], [], [], timeout)
        if not r:
            raise RuntimeError('peer: no incoming connection')
        self.conn, _ = self.lsock.accept()
        self.conn.setsockopt(socket.IPPROTO_TCP, socket.TCP_NODELAY, 1)
        return self.conn

    def write(self, data):
        self.conn.settimeout(10)
        self.conn.sendall(data)

    def read_exact(self, n, timeout=5.0):
        self.conn.settimeout(timeout)
        out = bytearray()
        while len(out) < n:
            d = self.conn.recv(n - len(out))
            if not d:
                break
            out += d
        return bytes(out)

    def close_conn(self):
        if self.conn is not None:
            try:
                self.conn.close()
            except OSError:
                pass
            self.conn = None

    def close(self):
        self.close_conn()
        try:
            self.lsock.close()
        except OSError:
            pass
