"""A virtual asyncio event loop: no selector, virtual time, ready handles run strictly FIFO (as the real
loop guarantees).  The only nondeterminism offered to the explorer is the completion order of pending
transport I/O (futures parked by SimTransportAsync via `gate()`)."""
import asyncio
import heapq
from asyncio import events

from .common import HarnessError


class Deadlock(Exception):
    pass


class VLoop(asyncio.BaseEventLoop):
    def __init__(self, clock, chooser=None, explore_io=False, max_steps=2000000):
        super().__init__()
        self._vclock = clock
        self._chooser = chooser
        self._explore_io = explore_io
        self._pending_io = []          # [(future, label)]
        self._max_steps = max_steps
        self.steps = 0
        self.io_choices = 0
        self.state_hook = None
        self.io_budgeted = False       # True: completing an I/O ahead of the default order costs one deviation

    # -- BaseEventLoop plumbing --------------------------------------------------
    def time(self):
        return self._vclock.now

    def _write_to_self(self):
        pass

    def _process_events(self, event_list):
        pass

    def run_in_executor(self, executor, func, *args):
        fut = self.create_future()
        try:
            fut.set_result(func(*args))
        except BaseException as e:  # pylint: disable=broad-except
            if isinstance(e, (HarnessError, KeyboardInterrupt)):
                raise
            fut.set_exception(e)
        return fut

    def default_exception_handler(self, context):
        self.unhandled = getattr(self, 'unhandled', [])
        self.unhandled.append(context.get('message'))

    # -- I/O gate --------------------------------------------------------------------
    async def gate(self, label=None):
        """Park the calling task until the explorer completes this I/O."""
        if not self._explore_io:
            return
        fut = self.create_future()
        self._pending_io.append((fut, label))
        await fut

    # -- driving -----------------------------------------------------------------------
    def _step(self):
        """Run one ready handle or complete one pending I/O.  Returns False when nothing can run."""
        self.steps += 1
        if self.steps > self._max_steps:
            raise HarnessError('virtual loop exceeded %d steps' % self._max_steps)
        nio = len(self._pending_io)
        has_ready = bool(self._ready)
        if nio and self._explore_io:
            opts = (1 if has_ready else 0) + nio
            if self.state_hook is not None:
                self.state_hook(self)
            c = self._chooser.choose('io-order', opts, tuple([0] + [1] * (opts - 1)) if self.io_budgeted else 0) if opts > 1 else 0
            if has_ready:
                c -= 1
            if c >= 0:
                fut, _label = self._pending_io.pop(c)
                self.io_choices += 1
                if not fut.done():
                    fut.set_result(None)
                return True
        if has_ready:
            h = self._ready.popleft()
            if not h._cancelled:
                h._run()
            return True
        if self._scheduled:
            h = heapq.heappop(self._scheduled)
            h._scheduled = False
            if not h._cancelled:
                if h._when > self._vclock.now:
                    self._vclock.now = h._when
                self._ready.append(h)
            return True
        return False

    def drive(self, *coros):
        """Run coroutines as tasks until all are done; returns the list of tasks."""
        old = events._get_running_loop()
        events._set_running_loop(self)
        try:
            tasks = [self.create_task(c) for c in coros]
            while not all(t.done() for t in tasks):
                if not self._step():
                    raise Deadlock('no runnable handle, no timer, no pending I/O; tasks waiting: %d'
                                   % sum(not t.done() for t in tasks))
            return tasks
        finally:
            events._set_running_loop(old)

    def drive_cancelling(self, coro, after_io):
        """Run one coroutine as a task and cancel it as soon as `after_io` transport calls have completed; returns the task (done)."""
        old = events._get_running_loop()
        events._set_running_loop(self)
        try:
            task = self.create_task(coro)
            cancelled = False
            while not task.done():
                if not cancelled and self.io_choices >= after_io:
                    task.cancel()
                    cancelled = True
                if not self._step():
                    raise Deadlock('no runnable handle, no timer, no pending I/O while driving a task to its cancellation')
            return task, cancelled
        finally:
            events._set_running_loop(old)

    def run1(self, coro):
        t = self.drive(coro)[0]
        return t.result()

    def shutdown(self):
        # cancel whatever is left so that nothing is reported at garbage collection time
        old = events._get_running_loop()
        events._set_running_loop(self)
        try:
            for fut, _ in self._pending_io:
                fut.cancel()
            self._pending_io = []
            for _ in range(1000):
                if not self._ready:
                    break
                h = self._ready.popleft()
                if not h._cancelled:
                    try:
                        h._run()
                    except Exception:  # pylint: disable=broad-except
                        pass
        finally:
            events._set_running_loop(old)
        self._ready.clear()
        self._scheduled.clear()
        self._closed = True
