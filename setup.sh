#!/bin/bash
# Nothing to build: the framework is pure Python.  Self-test the harness against /repo's working tree.
cd "$(dirname "$0")" || exit 2
export PYTHONHASHSEED=0 PYTHONDONTWRITEBYTECODE=1
/venv/bin/python -m mc.selftest
