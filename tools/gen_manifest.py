#!/venv/bin/python
"""Regenerate MANIFEST.json from the table below (keeps it valid while checks are added)."""
import json
import os

HERE = os.path.dirname(os.path.dirname(os.path.abspath(__file__)))

# id -> (level, technique, text, note, design_ref)
CHECKS = {
 'C19': ('model_checking', 'explicit-state BFS of the real _AdbPacketStore vs. a nondeterministic reference model',
         'Every symbol of the store alphabet (put x OKAY/WRTE/CLSE, find, find_allow_zeros, contains, get, clear, clear_all, len; wildcard '
         'lookups included) is applied at every reachable state of the real object up to the stated BFS depth over 3x3 and 2x2 id domains; '
         'return values are checked relationally against the set of admissible reference states. Complete for the alphabet and depth, so any '
         'FIFO/wildcard/len/forget defect reachable within the bound is found.',
         'trusts the reference model in mc/checks/c19.py; canonical form reads _dict/_queue only for deduplication (falls back to '
         'history-as-state); callers respect get()\'s precondition', '4/C19'),
 'C01': ('exploration', 'exhaustive enumeration of device outputs x all WRTE partitions x APIs x decode x twins (stateless DFS over choice points)',
         'Every output string of <=2 (thorough 3) atoms of a UTF-8-hostile alphabet is split in ALL 2^(n-1) ways into WRTE payloads and run through '
         'shell/exec_out/streaming_shell/root, decode on/off, sync and async, CLSE eager or after the last ack, plus read-fragment deviations, '
         'maxdata-boundary payloads and a second live stream under every device wire order; the result is compared with the device-side payload record. '
         'Exhaustive within the alphabet and length bound.',
         'trusts adbsim (mc/adbsim.py) as adbd model; outputs outside the atom alphabet / longer than the bound are not explored', '4/C01'),
 'C03': ('exploration', 'deviation-bounded stateless DFS over per-bulk_read fragmentation choices + exhaustive single-bit corruption / bad-command enumeration',
         'All placements of <=2 (thorough 3) read-fragment deviations {1 byte, n-1, half, empty} over every bulk_read of a six-operation session through both '
         'twins, six global fragmentation policies, every single-bit flip of every inbound payload byte and of data_check, and ~250 unknown command words at '
         'every inbound packet; oracle: results and host packet log identical to the unfragmented run, no request past the current packet, '
         'InvalidChecksumError / InvalidCommandError from the call that read the bad packet.',
         'trusts adbsim and its frame boundaries; virtual clock frozen so only fragmentation varies', '4/C03'),
 'C02': ('exploration', 'exhaustive product enumeration of pack() inputs decoded by an independent parser; strict parsing of whole-session host streams',
         '7 commands x 45^2 boundary argument values x payload shapes (every single byte value, runs around 256, up to 1 MiB / 17 MiB whose byte sum exceeds 2^32; bytes and '
         'bytearray) are packed by the library and decoded by an independent codec and by unpack(); whole sessions (all operations, auth, failing transfers, id counter at the '
         '32-bit wrap, remote ids at the extremes) are parsed frame by frame. The same strict parser also runs inside the device model on every execution of every other check.',
         'trusts mc/frames.py (independent codec written from protocol.txt)', '4/C02'),
 'C04': ('exploration', 'exhaustive enumeration of operation sequences x device parameters, judged by a protocol monitor over the wire log',
         'All sequences of <=2 (thorough 3) operations over the 8-operation alphabet on one connection x remote-id families x maxdata x chunkings x CLSE timing x push size x twins; '
         'the monitor checks OPEN shape/fresh id, (local, announced remote) on every later packet, one OKAY per delivered WRTE and none otherwise, stop-and-wait, exactly one CLSE and '
         'nothing after it; the device model stalls when an OKAY it is owed is missing.', 'trusts adbsim and mc/monitor.py; completion rules asserted on operations that succeed', '4/C04'),
 'C08': ('exploration', 'exhaustive enumeration of DATA compositions x WRTE cut sets (stateless DFS over free choice points)',
         'File contents of 0..6 bytes: all 2^(n-1) DATA-record compositions x all sets of <=2 (thorough 3) cut positions of the sync byte stream (every header split at every offset), '
         'all-1-byte chunking, destinations BytesIO / existing path / fresh path, callbacks none/counting/raising, both twins, read-fragment deviations, 64 KiB-boundary and MiB files; '
         'destination bytes must equal the model file, the stream must be closed and drained.', 'trusts adbsim sync service; contents are seeded bytes', '4/C08'),
 'C09': ('exploration', 'exhaustive enumeration of listings / stat triples x WRTE cut sets',
         'Listings of 0..3 entries from a boundary pool x all cut sets (<=2/3 for short names, every single cut for all), all-1-byte, 300 entries x WRTE sizes; stat: 13^3 boundary '
         'triples x every cut position; both twins; return values must equal the model filesystem and the stream must be closed.', 'trusts adbsim sync service', '4/C09'),
 'C13': ('model_checking', 'exhaustive enumeration of API call sequences on the real object against a reference availability machine',
         'Every sequence of <=3 (thorough 4) symbols over a 20-symbol alphabet (connect-ok, 4 kinds of failing connect, close, 10 operations, 4 empty-path operations) plus all length-5 '
         '(thorough 6) sequences over 8 symbols, both twins, run on the real AdbDevice/AdbDeviceAsync; `available` must equal the reference machine after every step, guarded operations '
         'must raise without writing a byte or creating a file, operations while connected must return ground truth.', 'trusts adbsim; no state abstraction is used to extend the bound', '4/C13'),
 'C07': ('exploration', 'exhaustive enumeration of file sizes x maxdata x sources x callbacks against the model filesystem',
         'For maxdata 4096 and 8192 EVERY file size from 0 to 3 chunks+64 is pushed (both twins); for 64 KiB..1 MiB every size within +-48 of each chunk multiple and flush threshold; '
         'plus path lengths up to the adbd limit, st_mode/mtime values, BytesIO / file / directory sources from three working directories, counting / raising / re-entrant callbacks and a '
         'withheld final OKAY. The model filesystem must hold exactly the source bytes, DATA <= 64 KiB, WRTE <= maxdata, one mkdir, return only after the sync OKAY, host log unchanged by callbacks.',
         'trusts adbsim sync service and filesystem model; contents are seeded bytes', '4/C07'),
 'C10': ('exploration', 'exhaustive enumeration of failure points x FAIL positions among OKAYs x reasons x packetisations',
         'pull: FAIL after RECV / after 1-2 DATA / instead of DONE; push: FAIL after SEND, after each DATA, at DONE for files of 1..5+ host WRTEs with the FAIL WRTE at EVERY legal position '
         'among the device OKAYs; five reason strings; the FAIL record cut at every set of <=2 positions; every sync id that is invalid at that point for pull/list/stat/push; both twins. '
         'Oracle: documented exception type carrying the reason, never a normal return, never a timeout class, no virtual time spent.',
         'trusts adbsim (FAIL handling per handle_send_file); ids outside the sync id table unspecified', '4/C10'),
 'C05': ('model_checking', 'exhaustive exploration of the real connect() against a device whose every AUTH decision is a choice point, compared with a reference handshake spec',
         'All device decision sequences (first reply, reply to each signature, reply to the public key incl. delays around the auth timeout, silence) for 0..4 (thorough 5) keys x callback '
         'none/recording/raising x CNXN maxdata x str/bytes public keys x <=2 stray packets x twins, and a second connect() under every outcome of the first; the expected host packet sequence, '
         'return/exception, `available`, callback count/position and adopted maxdata are derived from the reference spec. Complete for the decision alphabet.',
         'trusts mc/auth.py; stub signers (RSA itself is C17)', '4/C05'),
 'C11': ('fault_enumeration', 'exhaustive enumeration of (operation, awaited packet, stall kind, timeout grid) under a virtual clock',
         'Every operation x every device->host packet it awaits x {silence, end-of-stream, trickle x4, endless foreign traffic, endless unexpected packets} x a 4x4x4 timeout grid (None, 0, '
         'negative included), 1 ms of virtual time per transport call: the call must raise a timeout class within 4x(read+transport)+total, never return, never block forever (Hang / watchdog '
         'verdicts), and hand the transport only timeouts <= the effective read timeout.', 'trusts adbsim and the virtual clock; auth_timeout_s=None excluded', '4/C11'),
 'C12': ('fault_enumeration', 'exhaustive single-fault (and fault-pair) injection at every transport-call index, followed by reconnect and replay',
         'A fault (timeout once / sticky reset / sticky end-of-stream) at EVERY index of the transport-call sequence of a scenario that keeps a second stream suspended, then close-or-not, '
         'connect to a healthy device and the whole scenario again; a second fault at indices of the recovery pass (quick: stated stride; thorough: all pairs); <=1 deviation of the device '
         'wire order; both twins. Each call must raise or return the solo result, no lock may stay held, close()/connect() must complete, the store must be empty after connect(), the '
         'replay must return the solo results.', 'trusts adbsim; lock state read from the Lock attributes; a VLock stand-in turns self-deadlock into a verdict', '4/C12'),
 'C15': ('exploration', 'deviation-bounded stateless DFS over per-bulk_write accepted-byte choices + loopback TCP conformance sessions with 4 KiB socket buffers',
         'Every bulk_write of a session (connect with signature, shell, stat, 3-WRTE push, pull) may accept all / 1 / len-1 / half of the bytes and reports the count: all placements of <=2 '
         '(thorough 3) deviations, plus global capacities 1..4095, both twins; whenever a call returns normally the device model must have received exactly the byte stream of the unlimited run.',
         'trusts adbsim; the loopback sessions are conformance runs (kernel scheduling not enumerated)', '4/C15'),
 'C16': ('exploration', 'differential exploration: every generated program runs through both twins under the same recorded choice list',
         'Nine program families (operation sequences with fragment deviations, all handshake decision sequences, failing transfers, a fault at every transport-call index, stalls, availability '
         'sequences with empty paths, push sources x callbacks / pull destinations / id wrap, early device close, short writes) are executed through AdbDevice and AdbDeviceAsync against twin '
         'device models; host packet logs, results, exception types, `available` per step, device-side files, callback invocations and the choice-point structure must be equal.',
         'trusts adbsim and the in-memory twin transports; exception messages are not compared; TcpTransport vs TcpTransportAsync is compared in C18', '4/C16'),
 'C06': ('model_checking', 'stateless preemption-bounded exploration of real OS threads under a controlled scheduler (CHESS-style) + exhaustive I/O-completion orders on a virtual asyncio loop',
         '2-3 operations run concurrently on one connected device. Sync: each in its own thread, baton passed only at scheduling points (lock acquire/release, transport calls; line-level '
         'inside the I/O manager, packet store, _open and filesync helpers), ALL schedules up to preemption bound 2 (thorough 3; lines 1, thorough 2 on one scenario) x all device wire orders. '
         'Async: every order in which pending transport I/O can complete (complete). Each result must equal the solo result and the device-side record, the host byte stream must parse, every '
         'store access / transport call must happen under the right lock, no deadlock/livelock/timeout. (Finding K1, a CLSE of a live stream dropped by the store, was found by this check and is repaired in /repo.)',
         'trusts adbsim; SC at line granularity (GIL)', '4/C06'),
 'C14': ('model_checking', 'stateless preemption-bounded exploration with line- and bytecode-level scheduling points inside id allocation',
         '2-3 threads open streams that stay live, id counter started at 0, 1, 2^32-3..2^32-1; scheduling points before every line (and, in a separate part, every bytecode) of _open and '
         '_AdbTransactionInfo.__init__ plus lock/transport points; all schedules to preemption bound 2 (thorough 3); asyncio tasks under every I/O completion order; sequential histories across '
         'the wrap. Every OPEN id must be in [1, 2^32-1] and unique among live streams.', 'trusts adbsim and the protocol monitor; SC at bytecode granularity (GIL)', '4/C14'),
 'C17': ('exploration', 'exhaustive enumeration of (key, signer, token shape) judged by pure-integer RSA and an independent blob decoder',
         'Seeded deterministic 2048-bit keys (own Miller-Rabin search) and fresh keygen() keys are written to disk and re-loaded through all three signer classes; ~230 token shapes (all-zero, '
         'all-0xff, every single byte / single bit, leading zeros, random) are signed by each; s^e mod n must equal the EMSA-PKCS1-v1_5 encoding of the token as a SHA-1 digest, cryptography\'s '
         'Prehashed(SHA1) verifier must agree, the three signers must produce identical bytes, and the 524-byte Android RSAPublicKey must decode to the private key\'s numbers.',
         'decided for the enumerated keys x token shapes only (RSA over all keys is not finite-state); OS randomness in keygen() is not owned', '4/C17'),
 'C18': ('exploration', 'exhaustive enumeration of lock-step scripts on real loopback sockets (one thread drives both ends) + loopback conformance sessions',
         'Peer write sequences (<=3 writes from 7 sizes) x 4 read sizes x 3 interleaving patterns x both transports, reads on an empty pipe with two timeouts followed by a late write, '
         'transport writes read back by the peer, double close, close/connect/read on a fresh connection; every read must return 1..n bytes, the concatenation must equal the writes, an empty '
         'pipe must raise TcpTimeoutException not before half the timeout. Whole sessions (incl. 1 MiB push, 4 KiB socket buffers, slow reader) against a socket server running the device model must '
         'equal the in-memory session.', 'kernel scheduling is not enumerated: only timing-independent assertions and one-sided time bounds; sessions are evaluations, not exhaustive', '4/C18'),
 'C20': ('exploration', 'exhaustive enumeration over a fake usb1 backend: contract grid, short-transfer DFS, error injection at every bulk call index',
         'A fake python-libusb1 module wired to the device model is placed in sys.modules. Grid: 6 timeouts x 2 defaults x 4 read sizes x kernel driver x device selection (3 USB devices on the bus); '
         'a whole AdbDeviceUsb session under all placements of <=2 (thorough 3) backend short transfers; every USBError subclass at every bulkRead/bulkWrite index; errors while closing, use '
         'after close, double close, reconnect. The backend call log must show one claimInterface per connect, correct endpoints/lengths/millisecond timeouts, documented error types and a '
         'session identical to the in-memory one.', 'mc/fakeusb.py is the trusted model of a conforming libusb backend; connect-phase backend errors unspecified', '4/C20'),
}
NOT_YET = 'check not built yet in this round (planned, see DESIGN.md section 4); not claimed until it runs'


def main():
    ids = [json.loads(l)['id'] for l in open(os.path.join(HERE, 'properties.jsonl'))]
    checks = []
    for i in ids:
        if i not in CHECKS:
            continue
        level, tech, text, note, ref = CHECKS[i]
        checks.append({'property_id': i, 'quick_cmd': './check %s --tier quick' % i, 'thorough_cmd': './check %s --tier thorough' % i,
                       'evidence_file': 'evidence/%s.json' % i, 'replay_cmd_template': './check %s --replay {path}' % i,
                       'engine': 'mc', 'level_claimed': {'category': level, 'text': text, 'design_ref': 'DESIGN.md section ' + ref},
                       'level_note': note, 'technique': tech})
    man = {
     'version': 1,
     'setup_cmd': './setup.sh',
     'hooks': {'guard': 'ADB_SHELL_VERIF', 'enable': 'no source hooks: the harness replaces adb_shell.adb_device.Lock/.time, '
               'sys.modules[\'usb1\'] and uses sys.settrace from outside; the guard variable is unused by /repo',
               'baseline_off_cmd': 'cd /repo && /venv/bin/python -m pytest -ra -q -p no:cacheprovider --timeout=900 --continue-on-collection-errors',
               'source_commits': [], 'add_only': True},
     'engines': [{'name': 'mc', 'path': 'mc/', 'serves_properties': [c['property_id'] for c in checks],
                  'kind_free_text': 'hand-written stateless deviation-bounded DFS / explicit-state BFS explorer that executes the real '
                  'adb_shell code against an executable adbd model (mc/adbsim) with every environment answer a recorded choice point'}],
     'checks': checks,
     'not_applicable': [{'property_id': i, 'reason': NOT_YET} for i in ids if i not in CHECKS],
     'notes': 'All checks run /venv/bin/python with PYTHONHASHSEED=0 and import adb_shell from ${VERIF_REPO:-/repo} in a fresh process. '
              'Exit 0 held / 1 violation (VIOLATION line) / 2 harness error. known_findings.json lists recorded defects.',
    }
    with open(os.path.join(HERE, 'MANIFEST.json'), 'w') as f:
        json.dump(man, f, indent=1)
        f.write('\n')


if __name__ == '__main__':
    main()
