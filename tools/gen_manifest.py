#!/venv/bin/python
"""Regenerate MANIFEST.json from the table below (keeps it valid while checks are added)."""
import json
import os

HERE = os.path.dirname(os.path.dirname(os.path.abspath(__file__)))

# id -> (level, technique, text, note, design_ref)
CHECKS = {
 'C19': ('model_checking', 'explicit-state BFS of the real _AdbPacketStore vs. a nondeterministic reference model',
         'Every symbol of the store alphabet (put x OKAY/WRTE/CLSE, find, find_allow_zeros, contains, get, clear, clear_all, len; wildcard '
         'lookups included) is applied at every reachable state of the real object up to the stated BFS depth over 3x3 and 2x2 id domains; '
         'return values are checked relationally against the set of admissible reference states. Complete for the alphabet and depth, so any '
         'FIFO/wildcard/len/forget defect reachable within the bound is found.',
         'trusts the reference model in mc/checks/c19.py; canonical form reads _dict/_queue only for deduplication (falls back to '
         'history-as-state); callers respect get()\'s precondition', '4/C19'),
 'C01': ('exploration', 'exhaustive enumeration of device outputs x all WRTE partitions x APIs x decode x twins (stateless DFS over choice points)',
         'Every output string of <=2 (thorough 3) atoms of a UTF-8-hostile alphabet is split in ALL 2^(n-1) ways into WRTE payloads and run through '
         'shell/exec_out/streaming_shell/root, decode on/off, sync and async, CLSE eager or after the last ack, plus read-fragment deviations, '
         'maxdata-boundary payloads and a second live stream under every device wire order; the result is compared with the device-side payload record. '
         'Exhaustive within the alphabet and length bound.',
         'trusts adbsim (mc/adbsim.py) as adbd model; outputs outside the atom alphabet / longer than the bound are not explored', '4/C01'),
 'C03': ('exploration', 'deviation-bounded stateless DFS over per-bulk_read fragmentation choices + exhaustive single-bit corruption / bad-command enumeration',
         'All placements of <=2 (thorough 3) read-fragment deviations {1 byte, n-1, half, empty} over every bulk_read of a six-operation session through both '
         'twins, six global fragmentation policies, every single-bit flip of every inbound payload byte and of data_check, and ~250 unknown command words at '
         'every inbound packet; oracle: results and host packet log identical to the unfragmented run, no request past the current packet, '
         'InvalidChecksumError / InvalidCommandError from the call that read the bad packet.',
         'trusts adbsim and its frame boundaries; virtual clock frozen so only fragmentation varies', '4/C03'),
}
NOT_YET = 'check not built yet in this round (planned, see DESIGN.md section 4); not claimed until it runs'


def main():
    ids = [json.loads(l)['id'] for l in open(os.path.join(HERE, 'properties.jsonl'))]
    checks = []
    for i in ids:
        if i not in CHECKS:
            continue
        level, tech, text, note, ref = CHECKS[i]
        checks.append({'property_id': i, 'quick_cmd': './check %s --tier quick' % i, 'thorough_cmd': './check %s --tier thorough' % i,
                       'evidence_file': 'evidence/%s.json' % i, 'replay_cmd_template': './check %s --replay {path}' % i,
                       'engine': 'mc', 'level_claimed': {'category': level, 'text': text, 'design_ref': 'DESIGN.md section ' + ref},
                       'level_note': note, 'technique': tech})
    man = {
     'version': 1,
     'setup_cmd': './setup.sh',
     'hooks': {'guard': 'ADB_SHELL_VERIF', 'enable': 'no source hooks: the harness replaces adb_shell.adb_device.Lock/.time, '
               'sys.modules[\'usb1\'] and uses sys.settrace from outside; the guard variable is unused by /repo',
               'baseline_off_cmd': 'cd /repo && /venv/bin/python -m pytest -ra -q -p no:cacheprovider --timeout=900 --continue-on-collection-errors',
               'source_commits': [], 'add_only': True},
     'engines': [{'name': 'mc', 'path': 'mc/', 'serves_properties': [c['property_id'] for c in checks],
                  'kind_free_text': 'hand-written stateless deviation-bounded DFS / explicit-state BFS explorer that executes the real '
                  'adb_shell code against an executable adbd model (mc/adbsim) with every environment answer a recorded choice point'}],
     'checks': checks,
     'not_applicable': [{'property_id': i, 'reason': NOT_YET} for i in ids if i not in CHECKS],
     'notes': 'All checks run /venv/bin/python with PYTHONHASHSEED=0 and import adb_shell from ${VERIF_REPO:-/repo} in a fresh process. '
              'Exit 0 held / 1 violation (VIOLATION line) / 2 harness error. known_findings.json lists recorded defects.',
    }
    with open(os.path.join(HERE, 'MANIFEST.json'), 'w') as f:
        json.dump(man, f, indent=1)
        f.write('\n')


if __name__ == '__main__':
    main()
