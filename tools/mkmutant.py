#!/venv/bin/python
"""tools/mkmutant.py <name> <file> <old> <new> [<file> <old> <new> ...] -> mutants/<name>.diff (exact-string replacement, must match once)."""
import os
import subprocess
import sys
import tempfile

name = sys.argv[1]
trip = sys.argv[2:]
d = tempfile.mkdtemp(prefix='mk-', dir='/tmp')
os.rmdir(d)
subprocess.check_call(['git', '-C', '/repo', 'worktree', 'add', '-q', '--detach', d, 'HEAD'])
try:
    for i in range(0, len(trip), 3):
        f, old, new = trip[i:i + 3]
        p = os.path.join(d, f)
        s = open(p).read()
        old = old.encode().decode('unicode_escape')
        new = new.encode().decode('unicode_escape')
        if s.count(old) != 1:
            sys.exit('%r occurs %d times in %s' % (old, s.count(old), f))
        open(p, 'w').write(s.replace(old, new))
    out = subprocess.check_output(['git', '-C', d, 'diff'])
    open(os.path.join(os.path.dirname(os.path.dirname(os.path.abspath(__file__))), 'mutants', name + '.diff'), 'wb').write(out)
    print('wrote mutants/%s.diff (%d bytes)' % (name, len(out)))
finally:
    subprocess.call(['git', '-C', '/repo', 'worktree', 'remove', '--force', d])
