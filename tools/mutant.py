#!/venv/bin/python
"""Run checks against a patched scratch copy of /repo.

  tools/mutant.py <patch.diff> [--tests] [--tier quick] <ID> [<ID> ...]

Creates a git worktree of /repo's HEAD under /tmp, applies the patch, optionally runs the pinned test
suite there, runs each check with VERIF_REPO=<copy> --no-evidence, prints one line per check
(DETECTED / MISSED / HARNESS-ERROR) and removes the worktree.  Exit 0 iff every check detected it.
"""
import argparse
import os
import shutil
import subprocess
import sys
import tempfile

VERIF = os.path.dirname(os.path.dirname(os.path.abspath(__file__)))


def main():
    ap = argparse.ArgumentParser()
    ap.add_argument('patch')
    ap.add_argument('ids', nargs='+')
    ap.add_argument('--tests', action='store_true')
    ap.add_argument('--tier', default='quick')
    ap.add_argument('--verbose', action='store_true')
    ap.add_argument('--demo', help='demonstration program: must exit 0 before the patch and non-zero after')
    a = ap.parse_args()
    d = tempfile.mkdtemp(prefix='mut-', dir='/tmp')
    os.rmdir(d)
    subprocess.check_call(['git', '-C', '/repo', 'worktree', 'add', '-q', '--detach', d, 'HEAD'])
    ok = True
    try:
        def demo():
            name = os.path.basename(os.path.dirname(os.path.abspath(a.demo))) or 'seed'
            sub = os.path.join(d, 'seed_out', name)
            os.makedirs(sub, exist_ok=True)
            shutil.copy(a.demo, os.path.join(sub, 'demo.py'))
            r = subprocess.run(['/venv/bin/python', os.path.join('seed_out', name, 'demo.py')], cwd=d, stdout=subprocess.PIPE, stderr=subprocess.STDOUT, text=True,
                               env=dict(os.environ, PYTHONDONTWRITEBYTECODE='1', PYTHONPATH=d), timeout=600)
            return r.returncode
        if a.demo:
            print('demo without patch: exit %d' % demo())
        if subprocess.call(['git', '-C', d, 'apply', '--whitespace=nowarn', os.path.abspath(a.patch)], stderr=subprocess.DEVNULL) != 0:
            print('plain apply failed, using 3-way apply')
            subprocess.check_call(['git', '-C', d, 'apply', '--3way', '--whitespace=nowarn', os.path.abspath(a.patch)])
        if a.demo:
            print('demo with patch: exit %d' % demo())
        if a.tests:
            r = subprocess.run(['/venv/bin/python', '-m', 'pytest', '-q', '-x', '-p', 'no:cacheprovider', '--timeout=900'], cwd=d,
                               stdout=subprocess.PIPE, stderr=subprocess.STDOUT, text=True, env=dict(os.environ, PYTHONDONTWRITEBYTECODE='1'))
            tail = r.stdout.strip().splitlines()[-1] if r.stdout.strip() else ''
            print('pinned suite on mutant: exit %d: %s' % (r.returncode, tail))
        for i in a.ids:
            r = subprocess.run([os.path.join(VERIF, 'check'), i, '--tier', a.tier, '--no-evidence'], cwd=VERIF, stdout=subprocess.PIPE,
                               stderr=subprocess.STDOUT, text=True, env=dict(os.environ, VERIF_REPO=d))
            viol = [l for l in r.stdout.splitlines() if l.startswith('VIOLATION')]
            first = [l for l in r.stdout.splitlines() if l.strip().startswith('violation (')][:2]
            if r.returncode == 1 and viol:
                print('%s DETECTED  %s' % (i, first[0].strip() if first else ''))
            elif r.returncode == 0:
                print('%s MISSED' % i)
                ok = False
            else:
                print('%s HARNESS-ERROR exit %d' % (i, r.returncode))
                ok = False
            if a.verbose or r.returncode not in (0, 1):
                print(r.stdout[-3000:])
    finally:
        subprocess.call(['git', '-C', '/repo', 'worktree', 'remove', '--force', d])
        shutil.rmtree(d, True)
        subprocess.call(['git', '-C', '/repo', 'worktree', 'prune'])
    return 0 if ok else 1


if __name__ == '__main__':
    sys.exit(main())
