#!/bin/bash
# tools/neutral.sh <patch.diff> : run every quick check against a behaviour-preserving change; every check must stay silent.
out=$(tools/mutant.py "$1" --tests C01 C02 C03 C04 C05 C06 C07 C08 C09 C10 C11 C12 C13 C14 C15 C16 C17 C18 C19 C20 2>&1)
echo "$out" | grep -E "pinned suite" | cut -c1-100
bad=$(echo "$out" | grep -E "DETECTED|HARNESS-ERROR" | cut -c1-300)
if [ -z "$bad" ]; then echo "SILENT on all 20 checks: $1"; else echo "ALARM on $1:"; echo "$bad"; fi
