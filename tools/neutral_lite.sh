#!/bin/bash
# tools/neutral_lite.sh <patch.diff> [extra check ids] : like neutral.sh but without the three slowest checks (C06 C14 C19) unless named
extra="$2 $3 $4"
out=$(tools/mutant.py "$1" C01 C02 C03 C04 C05 C07 C08 C09 C10 C11 C12 C13 C15 C16 C17 C18 C20 $extra 2>&1)
bad=$(echo "$out" | grep -E "DETECTED|HARNESS-ERROR" | cut -c1-300)
if [ -z "$bad" ]; then echo "SILENT on 17 checks $extra: $1"; else echo "ALARM on $1:"; echo "$bad"; fi
