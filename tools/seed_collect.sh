#!/bin/bash
# tools/seed_collect.sh <PID> : copy /tmp/seedwork/wt-<PID>/seed_out/* to /verif/seeded/<PID>-<name>/
pid=$1
for d in /tmp/seedwork/${2:-wt}-$pid/seed_out/*/; do
  n=$(basename "$d")
  mkdir -p /verif/seeded/$pid-$n
  cp "$d"/patch.diff "$d"/demo.py "$d"/meta.json /verif/seeded/$pid-$n/ 2>/dev/null
  echo "collected $pid-$n"
done
