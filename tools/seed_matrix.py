#!/venv/bin/python
"""Run every seeded change against the checks that should catch it; write seeded/RESULTS.md and seeded/<id>/verify.json.

  tools/seed_matrix.py [--only <substr>] [--jobs N] [--force]
"""
import argparse
import concurrent.futures
import json
import os
import re
import subprocess
import sys

VERIF = os.path.dirname(os.path.dirname(os.path.abspath(__file__)))
# seed directory -> checks expected to detect it besides the property it was written for
EXTRA = {
 'C01-store-check-outside-transport-lock': ['C06'],
 'C04-local-id-read-outside-lock': ['C14', 'C06'], 'C05-available-not-reset-on-reconnect': ['C13'], 'C06-local-id-read-after-unlock': ['C14'],
 'C07-shared-sync-send-buffer': ['C06'], 'C13-stale-available-on-reconnect': ['C05'], 'C13-auth-retry-accepted-as-cnxn': ['C05'],
 'C02-short-write-cursor-reset': ['C15'], 'C02-async-unlocked-ack': ['C06'], 'C09-flush-drops-early-reply': ['C10', 'C04'],
 'C16-sync-auth-token-check-hoisted': ['C05'], 'C09-store-open-streams-half-rekeyed': ['C06', 'C01'], 'C15-send-lock-wait-unchecked': ['C14'], 'C15-async-shared-header-buffer': ['C06'], 'C18-async-read-remaining-from-last-fragment': ['C03'], 'C02-auth-pubkey-text-length': ['C05'], 'C18-sync-write-reports-full-length': ['C15'],
}
PRIMARY_OVERRIDE = {'C07-async-send-lock-split-header-payload': ['C06'], 'C11-tcp-bulk-read-fills-request': ['C18'], 'C11-connect-handshake-cmds-shared': ['C05', 'C13'], 'C08-short-write-cursor-rebased': ['C15'], 'C09-short-write-offset-not-accumulated': ['C15'], 'C12-tcp-stale-socket-after-reset': ['C18'], 'C12-async-tcp-close-raises-after-reset': ['C18'], 'C04-store-recheck-outside-transport-lock': ['C06'], 'C06-local-id-returned-on-failed-open': ['C14'], 'C18-sync-pending-header-survives-reconnect': ['C12'], 'C02-close-confirm-timeout-ignored': ['C15'], 'C15-async-tcp-timeout-reports-partial': ['C18', 'C15'], 'C04-header-only-send-skips-transport-lock': ['C06'], 'C18-sync-fragment-deadline-uses-transport-timeout': ['C03'], 'C07-partial-write-offset-not-accumulated': ['C15', 'C02'], 'C09-payloadless-send-skips-transport-lock': ['C06'], 'C03-pending-header-survives-reconnect': ['C12'], 'C01-open-local-id-read-after-unlock': ['C14', 'C06'], 'C02-send-retry-after-write-timeout': ['C15'], 'C16-sync-tcp-short-send-reported-full': ['C18', 'C15'], 'C14-shared-header-scratch-buffer': ['C02'], 'C15-lock-yield-between-partial-writes': ['C06'], 'C18-async-auth-wait-timeout-clamped': ['C05'], 'C08-store-recheck-after-device-read': ['C06'], 'C09-store-check-outside-transport-lock': ['C06'], 'C01-store-check-outside-transport-lock': ['C06'], 'C04-local-id-read-outside-lock': ['C14'], 'C02-async-unlocked-ack': ['C06']}
NO_TESTS = set()


def merge_meta(d, seed, res):
    """meta.json: the sub-agent's description (property, what it needs to manifest) + what was run here and what came out."""
    mp = os.path.join(d, 'meta.json')
    try:
        meta = json.load(open(mp))
    except Exception:  # pylint: disable=broad-except
        meta = {}
    meta.setdefault('property', seed.split('-')[0])
    meta['verified'] = {'command': res.get('ran'), 'pinned_suite_with_change': res.get('pinned_suite'), 'demo_exit_without_change': res.get('demo_without_patch'),
                        'demo_exit_with_change': res.get('demo_with_patch'), 'checks': {c: x['verdict'] for c, x in res['checks'].items()}}
    json.dump(meta, open(mp, 'w'), indent=1)


def run(seed, force):
    d = os.path.join(VERIF, 'seeded', seed)
    out = os.path.join(d, 'verify.json')
    pid = seed.split('-')[0]
    checks = PRIMARY_OVERRIDE.get(seed, [pid]) + [c for c in EXTRA.get(seed, []) if c not in PRIMARY_OVERRIDE.get(seed, [pid])]
    if os.path.exists(out) and not force:
        old = json.load(open(out))
        if sorted(old.get('checks', {})) == sorted(checks):
            merge_meta(d, seed, old)
            return seed, old
    cmd = [os.path.join(VERIF, 'tools', 'mutant.py'), os.path.join(d, 'patch.diff'), '--tests']
    if os.path.exists(os.path.join(d, 'demo.py')):
        cmd += ['--demo', os.path.join(d, 'demo.py')]
    cmd += checks
    try:
        r = subprocess.run(cmd, cwd=VERIF, stdout=subprocess.PIPE, stderr=subprocess.STDOUT, text=True, timeout=3600)
        text = r.stdout
    except subprocess.TimeoutExpired as e:
        text = (e.stdout or '') + '\nTIMEOUT'
    res = {'checks': {}, 'ran': ' '.join(os.path.relpath(c, VERIF) if c.startswith('/') else c for c in cmd)}
    m = re.search(r'demo without patch: exit (\d+)', text)
    res['demo_without_patch'] = int(m.group(1)) if m else None
    m = re.search(r'demo with patch: exit (\d+)', text)
    res['demo_with_patch'] = int(m.group(1)) if m else None
    m = re.search(r'pinned suite on mutant: exit (\d+): (.*)', text)
    res['pinned_suite'] = m.group(2).strip() if m else None
    res['pinned_suite_exit'] = int(m.group(1)) if m else None
    for c in checks:
        m = re.search(r'^%s (DETECTED|MISSED|HARNESS-ERROR)(.*)$' % c, text, re.M)
        res['checks'][c] = {'verdict': m.group(1) if m else 'NOT-RUN', 'first_violation': m.group(2).strip()[:300] if m else text[-300:]}
    json.dump(res, open(out, 'w'), indent=1)
    merge_meta(d, seed, res)
    return seed, res


def main():
    ap = argparse.ArgumentParser()
    ap.add_argument('--only')
    ap.add_argument('--jobs', type=int, default=2)
    ap.add_argument('--force', action='store_true')
    a = ap.parse_args()
    seeds = sorted(s for s in os.listdir(os.path.join(VERIF, 'seeded')) if os.path.isdir(os.path.join(VERIF, 'seeded', s)) and (not a.only or a.only in s))
    rows = []
    with concurrent.futures.ThreadPoolExecutor(a.jobs) as ex:
        for seed, res in ex.map(lambda s: run(s, a.force), seeds):
            v = ', '.join('%s:%s' % (c, x['verdict']) for c, x in res['checks'].items())
            print('%-50s suite[%s] demo %s/%s  %s' % (seed, res.get('pinned_suite'), res.get('demo_without_patch'), res.get('demo_with_patch'), v), flush=True)
            rows.append((seed, res))
    all_seeds = sorted(s for s in os.listdir(os.path.join(VERIF, 'seeded')) if os.path.exists(os.path.join(VERIF, 'seeded', s, 'verify.json')))
    with open(os.path.join(VERIF, 'seeded', 'RESULTS.md'), 'w') as f:
        f.write('# Seeded changes (written by independent sub-agents from the property text only) vs. the checks\n\n')
        f.write('Each row: the change, whether the pinned suite still passes with it, the demo exit codes without/with the patch, and the verdict of each check run against it '
                '(`tools/mutant.py <patch> --tests --demo <demo> <checks>`; quick tier).\n\n| seed | pinned suite | demo (clean/patched) | checks |\n|---|---|---|---|\n')
        for s in all_seeds:
            r = json.load(open(os.path.join(VERIF, 'seeded', s, 'verify.json')))
            f.write('| %s | %s | %s / %s | %s |\n' % (s, r.get('pinned_suite'), r.get('demo_without_patch'), r.get('demo_with_patch'),
                                                   ', '.join('%s: %s' % (c, x['verdict']) for c, x in r['checks'].items())))
    return 0


if __name__ == '__main__':
    sys.exit(main())
