#!/opt/veriftools/pyvenv/bin/python
"""Validate MANIFEST.json and evidence/*.json against the schemas in /root/.vp (run with python3-vt)."""
import glob
import json
import sys

import jsonschema

ok = True
for path, schema in [('MANIFEST.json', '/root/.vp/MANIFEST.schema.json')] + [(p, '/root/.vp/EVIDENCE.schema.json') for p in sorted(glob.glob('evidence/*.json'))]:
    try:
        jsonschema.validate(json.load(open(path)), json.load(open(schema)))
        print('ok   ', path)
    except Exception as e:  # pylint: disable=broad-except
        ok = False
        print('FAIL ', path, str(e)[:400])
man = json.load(open('MANIFEST.json'))
ids = [json.loads(l)['id'] for l in open('properties.jsonl')]
claimed = [c['property_id'] for c in man['checks']]
na = [c['property_id'] for c in man.get('not_applicable', [])]
for i in ids:
    if (i in claimed) == (i in na):
        ok = False
        print('FAIL  property %s must be either claimed or not_applicable' % i)
sys.exit(0 if ok else 1)
